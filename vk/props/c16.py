"""C16 - gene-level grouping yields each gene's own bins, each bin exactly once."""
import math

import numpy as np
from hypothesis import strategies as st

from vk import gen

ID = "C16"
LEVEL = "exploration"
RULE = (
    "Hypothesis draws a layout plan per chromosome (1..5 chromosomes incl. X): a sequence of blocks, each a "
    "uniquely named gene of 1..10 bins optionally interrupted strictly inside by Antitarget/ignored-name bins, or "
    "an intergenic stretch of 0..6 bins named from {Antitarget, Background, -, ., CGH}, so stretches occur "
    "before, between and after genes (incl. single trailing bins and gene-less chromosomes); log2/weight/depth "
    "from a seeded RNG around per-gene levels, null-coverage bins, default or stepped row index, optional "
    "segments with breakpoints at bin edges inside and between genes, threshold, min_probes, skip_low, sex "
    "options. A third of the cases sit at 2.4e8 / beyond 2^31; every weight of a case carries a common factor (1, "
    "1e-10, 1e-12, 1e6). Oracle: the expected grouping is read off the plan; genemetrics / squash_genes / breaks "
    "rows are re-derived from it. Non-trivial = a chromosome with >= 2 genes and an intergenic stretch, or a "
    "non-default index; distinct = distinct case JSON."
)
CLI_SHARE = 4  # one case in CLI_SHARE also goes through the command line (vk/cli.py)
QUICK = {"examples": 2400, "shards": 16, "budget_s": 300}
THOROUGH = {"examples": 24000, "shards": 16, "budget_s": 2400}
ASSUMPTIONS = [
    "gene names contain no commas (a comma-named bin belongs to two genes by design)",
    "bin weights are positive; a weighted mean within 1e-9 of the threshold accepts either decision",
    "sample sex is passed explicitly to genemetrics (inference is C15)",
    "breaks are compared as a multiset of (gene, chromosome, location, bins left, bins right)",
]
INTER_NAMES = ["Antitarget", "Background", "-", ".", "CGH"]
CHROMS = ["chr1", "chr2", "chr3", "chrX", "chrY"]


@st.composite
def strategy(draw):
    nchrom = draw(st.integers(1, 5))
    names = sorted(draw(st.lists(st.sampled_from(range(5)), min_size=nchrom, max_size=nchrom, unique=True)))
    chroms = []
    gid = 0
    style = draw(st.sampled_from(["chr", "chr", ""]))  # chr1..chrY or 1..Y
    for ci in names:
        nblocks = draw(st.integers(0, 7))
        blocks = []
        prev_inter = False
        for _ in range(nblocks):
            if not prev_inter and draw(st.integers(0, 2)) == 0:
                k = draw(st.integers(0, 6))
                if k:
                    blocks.append({"t": "inter", "names": [draw(st.sampled_from(INTER_NAMES)) for _ in range(k)]})
                    prev_inter = True
                continue
            n = draw(st.one_of(st.integers(1, 3), st.integers(1, 10)))
            pat = [1] * n
            if n >= 3 and draw(st.integers(0, 2)) == 0:
                for j in range(1, n - 1):
                    if draw(st.integers(0, 2)) == 0:
                        pat[j] = 0
            blocks.append({"t": "gene", "name": "G%d" % gid, "pat": pat,
                           "fill": draw(st.sampled_from(INTER_NAMES)),
                           "level": draw(st.sampled_from([-1.0, -0.5, -0.2, 0.0, 0.1, 0.2, 0.6, "thr", "-thr"]))})
            gid += 1
            prev_inter = False
        if not blocks:
            blocks.append({"t": "inter", "names": [draw(st.sampled_from(INTER_NAMES))] * draw(st.integers(1, 3))})
        chroms.append({"name": style + CHROMS[ci][3:], "blocks": blocks})
    nbins = sum(len(b.get("pat", b.get("names", []))) for c in chroms for b in c["blocks"])
    seg_cuts = sorted(set(draw(st.lists(st.integers(1, max(1, nbins - 1)), max_size=6))))
    return {"chroms": chroms, "seed": draw(st.integers(0, 2 ** 31)), "index": draw(st.sampled_from([[0, 1], [0, 1], [7, 1], [3, 2], [0, 2, "range"], [1, 3, "range"], [5, 1, "range"]])),
            "threshold": draw(st.sampled_from([0.0, 0.1, 0.2, 0.5])), "min_probes": draw(st.integers(0, 4)),
            "skip_low": draw(st.booleans()), "male_ref": draw(st.booleans()), "female": draw(st.booleans()),
            "null_frac": draw(st.sampled_from([0.0, 0.0, 0.15])), "cuts": seg_cuts,
            "use_segments": draw(st.booleans()), "seg_jitter": draw(st.sampled_from([0.0, 0.3, -0.6])),
            "squash_anti": draw(st.booleans()),
            # a common factor on every bin weight: the weighted mean does not depend on it (seeded change C16h treated
            # weights summing to less than 1e-8 as "no weights")
            "wscale": draw(st.sampled_from([1.0, 1.0, 1.0, 1e-10, 1e-12, 1e6])),
            # some bins inside a gene carry weight exactly 0 (never the gene's first bin, and only without segments and
            # null bins, so that every reported group keeps a positive weight and its weighted means stay defined) -
            # seeded change C16j fell back to the plain depth mean unless *all* weights were non-zero
            "zero_w": draw(st.booleans())}


# ------------------------------------------------------------------ building
def build(case):
    """Rows (dicts) in genomic order and the expected grouping [(label, [row ids])] per chromosome."""
    rng = np.random.default_rng(case["seed"])
    rows = []
    groups = []
    rid = 0
    for c in case["chroms"]:
        pos = int(rng.integers(0, 500)) + gen.offset_for(case)
        cgroups = []
        for b in c["blocks"]:
            if b["t"] == "inter":
                names = b["names"]
                ids = []
                for nm in names:
                    rows.append(_row(c["name"], pos, nm, 0.0, rng, case, rid))
                    pos = rows[-1]["end"] + int(rng.integers(0, 40)) * int(rng.integers(0, 3) > 0)
                    ids.append(rid)
                    rid += 1
                if cgroups and cgroups[-1][0] == "Antitarget":
                    cgroups[-1][1].extend(ids)
                elif ids:
                    cgroups.append(("Antitarget", ids))
            else:
                ids = []
                for k, bit in enumerate(b["pat"]):
                    nm = b["name"] if bit else b["fill"]
                    rows.append(_row(c["name"], pos, nm, b["level"], rng, case, rid))
                    if case.get("zero_w") and not case["use_segments"] and not case["null_frac"] and k >= 1 and bit and rid % 3 == 1:
                        rows[-1]["weight"] = 0.0
                    pos = rows[-1]["end"] + int(rng.integers(0, 40)) * int(rng.integers(0, 3) > 0)
                    ids.append(rid)
                    rid += 1
                cgroups.append((b["name"], ids))
        groups.append((c["name"], cgroups))
    return rows, groups


def _row(chrom, pos, name, level, rng, case, rid):
    ln = int(rng.integers(10, 200))
    null = rng.random() < case["null_frac"]
    if isinstance(level, str):
        # every bin of the gene half a millionth beyond the reporting threshold: |mean| >= threshold must report it
        log2 = (case["threshold"] + 5e-7) * (-1.0 if level.startswith("-") else 1.0)
        rng.normal(0, 0.05)
    else:
        log2 = float(level + rng.normal(0, 0.05))
    if null:
        log2 = -20.0
    return {"rid": rid, "chromosome": chrom, "start": pos, "end": pos + ln, "gene": name, "log2": log2,
            "depth": 0.0 if null else float(2 ** log2 * 100), "weight": float(rng.uniform(0.05, 1.0)) * case.get("wscale", 1.0)}


def make_cnarr(rows, case):
    import pandas as pd
    from cnvlib.cnary import CopyNumArray

    df = pd.DataFrame(rows, columns=["chromosome", "start", "end", "gene", "log2", "depth", "weight", "rid"])
    off, step = case["index"][:2]
    if len(case["index"]) > 2 and case["index"][2] == "range":
        # what slicing a default-indexed table (cnarr[::k], cnarr[k:]) leaves behind: a (strided) RangeIndex
        import pandas as pd

        df.index = pd.RangeIndex(off, off + step * len(df), step)
    else:
        df.index = np.arange(len(df)) * step + off
    return CopyNumArray(df, {"sample_id": "s"})


def make_segments(rows, case):
    """Segments from cut positions (global bin positions); never spanning chromosomes."""
    import pandas as pd
    from cnvlib.cnary import CopyNumArray

    segs = []
    cur = []
    cuts = set(case["cuts"])
    for i, r in enumerate(rows):
        if cur and (r["chromosome"] != cur[-1]["chromosome"] or i in cuts):
            segs.append(cur)
            cur = []
        cur.append(r)
    if cur:
        segs.append(cur)
    recs = []
    for k, s in enumerate(segs):
        if case["seed"] % 5 == 2 and len(s) >= 3:
            # segments as `segment` leaves them when it dropped a low-coverage bin at their end: the last bin of the run
            # lies in no segment, between this one and the next (seeded change C16q counted the bins right of a break from
            # the next segment's start, so such a bin was on neither side)
            s = s[:-1]
        w = sum(r["weight"] for r in s)
        vals = [r["log2"] for r in s if r["log2"] > -15] or [0.0]
        lg = float(np.mean(vals)) + (case["seg_jitter"] if k % 2 else 0.0)
        if k % 3 == 0 and case["seed"] % 2 == 0 and not s[0]["chromosome"].endswith("X"):
            lg = math.copysign(float(case["threshold"]), lg if lg else 1.0)  # exactly on the threshold: must be reported (>=)
        recs.append({"chromosome": s[0]["chromosome"], "start": s[0]["start"], "end": s[-1]["end"], "gene": "-",
                     "log2": lg, "probes": len(s), "weight": w})
    # one segment table in four covers a single chromosome of a multi-chromosome bin table (a .cns filtered to one
    # chromosome): genes elsewhere belong to no segment (seeded change C16m: a single-chromosome fast path that fired
    # although the other table held further chromosomes)
    chroms = list(dict.fromkeys(r["chromosome"] for r in recs))
    if len(chroms) > 1 and case["seed"] % 4 == 3:
        keep = chroms[(case["seed"] // 4) % len(chroms)]
        recs = [r for r in recs if r["chromosome"] == keep]
    return CopyNumArray(pd.DataFrame(recs), {"sample_id": "s"}), recs


def group_model(names, ids):
    """The grouping rule of the statement applied to a list of bin names: genes by first..last bin, the rest Antitarget."""
    ignore = set(INTER_NAMES)
    first, last, order = {}, {}, []
    for i, nm in enumerate(names):
        if nm in ignore:
            continue
        if nm not in first:
            first[nm] = i
            order.append(nm)
        last[nm] = i
    out = []
    prev = 0
    for g in order:
        if prev < first[g]:
            out.append(("Antitarget", ids[prev:first[g]]))
        out.append((g, ids[first[g]:last[g] + 1]))
        prev = last[g] + 1
    if prev < len(names):
        out.append(("Antitarget", ids[prev:]))
    return out


def nontrivial(case):
    if case["index"][:2] != [0, 1]:
        return True
    for c in case["chroms"]:
        genes = sum(1 for b in c["blocks"] if b["t"] == "gene")
        inter = any(b["t"] == "inter" for b in c["blocks"])
        if genes >= 2 and inter:
            return True
    return False


def classify(case):
    labs = ["index:" + ("default" if case["index"] == [0, 1] else "strided-RangeIndex" if len(case["index"]) > 2 else "nondefault"), "nchrom:%d" % len(case["chroms"])]
    labs.append("segments" if case["use_segments"] else "nosegments")
    for c in case["chroms"]:
        bl = c["blocks"]
        if bl and bl[-1]["t"] == "inter" and len(bl[-1]["names"]) == 1:
            labs.append("single-trailing-bin")
        if bl and bl[0]["t"] == "inter":
            labs.append("leading-stretch")
        if all(b["t"] == "inter" for b in bl):
            labs.append("gene-less-chromosome")
        if any(b["t"] == "gene" and 0 in b["pat"] for b in bl):
            labs.append("interrupted-gene")
    return sorted(set(labs))


def known(case, v):
    return None


def _wmean(rs):
    W = sum(r["weight"] for r in rs)
    return sum(r["log2"] * r["weight"] for r in rs) / W


def check_case(case):
    from cnvlib import reports

    out = []
    rows, groups = build(case)
    byid = {r["rid"]: r for r in rows}

    def bad(clause, detail):
        layout = [(c["name"], [(b["name"] + ":" + "".join(map(str, b["pat"]))) if b["t"] == "gene" else "/".join(b["names"]) for b in c["blocks"]]) for c in case["chroms"]]
        out.append({"clause": clause, "detail": f"{detail}; layout={layout} index={case['index']}"})

    cnarr = make_cnarr(rows, case)
    before = cnarr.data.copy()
    # ---- by_gene
    exp = [(lab, ids) for _c, cg in groups for lab, ids in cg]
    got = [(g, [int(x) for x in sub["rid"]]) for g, sub in cnarr.by_gene()]
    if got != exp:
        bad("by_gene", f"by_gene() yielded {got[:10]}, expected {exp[:10]}")
    seen = [x for _, ids in got for x in ids]
    if sorted(seen) != list(range(len(rows))):
        bad("by_gene:each-bin-once", f"bins yielded {len(seen)} times in total for {len(rows)} bins; duplicates {sorted({x for x in seen if seen.count(x) > 1})[:8]}")

    # ---- squash_genes
    sq = cnarr.as_dataframe(cnarr.data.drop(columns=["rid"])).squash_genes(squash_antitarget=case["squash_anti"])
    exp_rows = []
    for lab, ids in exp:
        if lab == "Antitarget" and not case["squash_anti"]:
            exp_rows += [(byid[i]["chromosome"], byid[i]["start"], byid[i]["end"], byid[i]["gene"]) for i in ids]
        else:
            name = lab if len(ids) > 1 else byid[ids[0]]["gene"]
            exp_rows.append((byid[ids[0]]["chromosome"], byid[ids[0]]["start"], byid[ids[-1]]["end"], name))
    got_rows = [(r.chromosome, int(r.start), int(r.end), r.gene) for r in sq.data.itertuples(index=False)]
    if got_rows != exp_rows:
        bad("squash_genes", f"rows {got_rows[:8]}, expected {exp_rows[:8]}")

    # ---- genemetrics
    thr, minp = case["threshold"], case["min_probes"]
    xshift = -1.0 if (case["female"] and case["male_ref"]) else (1.0 if (not case["female"] and not case["male_ref"]) else 0.0)

    def shifted(r):
        return r["log2"] + (xshift if r["chromosome"].endswith("X") else 0.0)

    def low(r):
        return r["log2"] < -15 or r["depth"] == 0

    if not case["use_segments"]:
        tbl = reports.do_genemetrics(cnarr, None, thr, minp, case["skip_low"], case["male_ref"], case["female"])
        exp_g = []
        for lab, ids in exp:
            if lab == "Antitarget":
                continue
            rs = [byid[i] for i in ids]
            use = [r for r in rs if not (case["skip_low"] and low(r))]
            if not use:
                continue
            W = sum(r["weight"] for r in use)
            mean = sum(shifted(r) * r["weight"] for r in use) / W
            edge = abs(abs(mean) - thr) < 1e-9
            if len(rs) < minp:
                continue
            if abs(mean) >= thr or edge:
                Wall = sum(r["weight"] for r in rs)
                exp_g.append({"gene": lab, "chromosome": rs[0]["chromosome"], "start": rs[0]["start"], "end": rs[-1]["end"],
                              "probes": len(rs), "weight": Wall, "log2": mean,
                              "depth": sum(r["depth"] * r["weight"] for r in rs) / Wall, "optional": edge})
        got_g = list(tbl.itertuples(index=False)) if len(tbl) else []
        _match_gene_rows(got_g, exp_g, bad, "genemetrics")
    else:
        segarr, segrecs = make_segments(rows, case)
        tbl = reports.do_genemetrics(cnarr, segarr, thr, minp, case["skip_low"], case["male_ref"], case["female"])
        # the sample sex left open: it is guessed once, from the bins, and that guess serves bins and segments alike (seeded
        # change C16n let the segment table guess for itself, and a few short chrX losses made it guess otherwise)
        guess = cnarr.guess_xx(case["male_ref"], verbose=False)
        if guess is not None:
            t_open = reports.do_genemetrics(cnarr, segarr, thr, minp, case["skip_low"], case["male_ref"], None)
            t_given = reports.do_genemetrics(cnarr, segarr, thr, minp, case["skip_low"], case["male_ref"], bool(guess))
            if not t_open.reset_index(drop=True).equals(t_given.reset_index(drop=True)):
                bad("genemetrics-segments:sex-open", f"with the sample sex left open the table differs from the one with the sex guessed from the bins "
                                                     f"({'female' if guess else 'male'}): {len(t_open)} vs {len(t_given)} rows")
        exp_g = []
        for s in segrecs:
            slog = s["log2"] + (xshift if s["chromosome"].endswith("X") else 0.0)
            edge = abs(abs(slog) - thr) < 1e-9 and abs(slog) != thr  # a value exactly on the threshold is not a rounding tie
            if not (abs(slog) >= thr or edge):
                continue
            inside = [r for r in rows if r["chromosome"] == s["chromosome"] and r["end"] > s["start"] and r["start"] < s["end"]]
            for lab, ids in group_model([r["gene"] for r in inside], [r["rid"] for r in inside]):
                if lab == "Antitarget":
                    continue
                rs = [byid[i] for i in ids]
                if s["probes"] < minp:
                    continue
                Wall = sum(r["weight"] for r in rs)
                exp_g.append({"gene": lab, "chromosome": rs[0]["chromosome"], "start": rs[0]["start"], "end": rs[-1]["end"],
                              "probes": len(rs), "weight": Wall, "log2": slog,
                              "depth": sum(r["depth"] * r["weight"] for r in rs) / Wall, "optional": edge,
                              "segment_probes": s["probes"]})
        got_g = list(tbl.itertuples(index=False)) if len(tbl) else []
        _match_gene_rows(got_g, exp_g, bad, "genemetrics-segments")
        # ---- breaks
        mp = case["min_probes"]  # 0 is a legitimate value: then only "strictly inside" decides
        br = reports.do_breaks(cnarr, segarr, mp)
        got_b = sorted((r.gene, r.chromosome, int(r.location), int(r.probes_left), int(r.probes_right)) for r in br.itertuples(index=False))
        exp_b = []
        for a, b in zip(segrecs[:-1], segrecs[1:]):
            if a["chromosome"] != b["chromosome"]:
                continue
            cut = a["end"]
            for _c, cg in groups:
                for lab, ids in cg:
                    if lab == "Antitarget" or byid[ids[0]]["chromosome"] != a["chromosome"]:
                        continue
                    own = [byid[i] for i in ids if byid[i]["gene"] == lab]
                    starts = sorted(r["start"] for r in own)
                    gend = max(r["end"] for r in own)
                    if starts[0] < cut < gend:
                        left = sum(1 for s_ in starts if s_ < cut)
                        right = sum(1 for s_ in starts if s_ >= cut)
                        if left >= mp and right >= mp:
                            exp_b.append((lab, a["chromosome"], cut, left, right))
        if got_b != sorted(exp_b):
            bad("breaks", f"breaks {got_b[:8]}, expected {sorted(exp_b)[:8]} (min_probes={mp})")
    if not cnarr.data.equals(before):
        bad("input-modified", "bin table changed")
    # ---- command-line tier (a quarter of the cases): `cnvkit.py genemetrics` / `breaks` on the written tables = the
    # library calls on the same files, the sample sex given on the command line
    if gen.pick(case, "cli", 4) == 0 and not out:
        import shutil
        import tempfile

        from vk import cli

        cli.use_case(case)

        d = tempfile.mkdtemp(prefix="vk16.")
        try:
            sa = segarr if case["use_segments"] else None
            diff = cli.genemetrics_diff(cnarr, sa, d, thr, minp, case["skip_low"], case["male_ref"], case["female"])
            if diff:
                bad("cli:genemetrics", diff)
            if sa is not None:
                diff = cli.breaks_diff(cnarr, sa, d, case["min_probes"])
                if diff:
                    bad("cli:breaks", diff)
        finally:
            shutil.rmtree(d, ignore_errors=True)
    return out


def _match_gene_rows(got, exp, bad, clause):
    gi = 0
    for e in exp:
        g = got[gi] if gi < len(got) else None
        same = g is not None and (g.gene, g.chromosome, int(g.start), int(g.end)) == (e["gene"], e["chromosome"], e["start"], e["end"])
        if same:
            gi += 1
            if int(g.probes) != e["probes"] or abs(g.weight - e["weight"]) > 1e-9 * max(1e-12, abs(e["weight"])) + 1e-300 or abs(g.log2 - e["log2"]) > 1e-9 \
                    or abs(g.depth - e["depth"]) > 1e-6 * max(1.0, abs(e["depth"])):
                bad(clause + ":values", f"gene {e['gene']}: got probes={g.probes} weight={g.weight!r} log2={g.log2!r} depth={g.depth!r}, "
                    f"expected probes={e['probes']} weight={e['weight']!r} log2={e['log2']!r} depth={e['depth']!r}")
                return
            if "segment_probes" in e and int(g.segment_probes) != e["segment_probes"]:
                bad(clause + ":values", f"gene {e['gene']}: segment_probes {g.segment_probes} != {e['segment_probes']}")
                return
        elif not e["optional"]:
            bad(clause, f"expected row for gene {e['gene']} {(e['chromosome'], e['start'], e['end'])} with log2 {e['log2']!r}, next reported row: "
                f"{(g.gene, g.chromosome, int(g.start), int(g.end), g.log2) if g is not None else None}")
            return
    if gi != len(got):
        g = got[gi]
        bad(clause, f"unexpected row {(g.gene, g.chromosome, int(g.start), int(g.end), g.log2)}")
