#!/bin/bash
# tools/sweep.sh [seeds...] : every quick check at several VERIF_SEED values (quietness sweep on the unchanged tree).
# Evidence goes to a scratch directory; prints one line per (check, seed) that did not exit 0 and a summary.
cd "$(dirname "$0")/.."
seeds="${@:-11 12 13 14 15 16 17 18}"
out=$(mktemp -d /tmp/vk-sweep.XXXXXX)
bad=0; n=0
for s in $seeds; do
  for p in C01 C02 C03 C04 C05 C06 C07 C08 C09 C10 C11 C12 C13 C14 C15 C16 C17 C18 C19 C20; do
    n=$((n+1))
    VERIF_EVIDENCE_DIR="$out" VERIF_SEED=$s ./check $p --tier quick > "$out/$p.$s.log" 2>&1
    rc=$?
    if [ $rc -ne 0 ]; then bad=$((bad+1)); echo "NOT-QUIET $p seed=$s exit=$rc"; grep -E "violated clause|HARNESS" "$out/$p.$s.log" | cut -c1-400; fi
  done
  echo "seed $s done ($bad of $n not quiet so far)"
done
echo "sweep finished: $bad of $n runs not quiet; logs in $out"
