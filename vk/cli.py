"""Command-line tier: the documented commands must behave like the library calls the properties are stated for.

A property check hands a fraction of its cases (a pure function of the case JSON) to `*_diff` below: the inputs are
written to files, the command is run in-process through cnvkit's own argument parser (`cnvlib.commands.parse_args` +
`args.func`), and its output file is compared with what the library call gives on the *same files* with the arguments the
command's documentation maps its options to. The library result itself is what the property's oracle judges; this tier
adds the option plumbing of `commands.py` (defaults, option -> argument mapping, sample-sex handling, output writing),
which no API-level oracle can see. Both sides read the same written (6-significant-digit) inputs and are compared after
being written and read back, so no tolerance is involved.
"""
import contextlib
import io
import logging
import os


def run(argv):
    """Run `cnvkit.py <argv>` in-process, quietly."""
    from cnvlib import commands

    args = commands.parse_args([str(a) for a in argv])
    lvl = logging.getLogger().level
    logging.getLogger().setLevel(logging.ERROR)
    try:
        with contextlib.redirect_stdout(io.StringIO()):
            args.func(args)
    finally:
        logging.getLogger().setLevel(lvl)


def read_cna(path):
    from cnvlib import cmdutil

    return cmdutil.read_cna(path)


def table_diff(a, b):
    """First difference between two DataFrames (columns, dtypes kind, values), or None."""
    import numpy as np

    if list(a.columns) != list(b.columns):
        return f"columns {list(a.columns)} vs {list(b.columns)}"
    if len(a) != len(b):
        return f"{len(a)} rows vs {len(b)} rows"
    for col in a.columns:
        x, y = a[col].to_numpy(), b[col].to_numpy()
        if x.dtype.kind in "fc" or y.dtype.kind in "fc":
            try:
                xf, yf = x.astype(float), y.astype(float)
            except (TypeError, ValueError):
                return f"column {col}: {x[:5]!r} vs {y[:5]!r}"
            ok = (xf == yf) | (np.isnan(xf) & np.isnan(yf))
        else:
            ok = x == y
        if not np.all(ok):
            i = int(np.flatnonzero(~np.asarray(ok))[0])
            return f"column {col} row {i}: {x[i]!r} vs {y[i]!r}"
    return None


def _sex_word(female):
    return "female" if female else "male"


def call_diff(cnarr, tmpdir, method="threshold", ploidy=2, purity=None, male_ref=False, female=None, par=None,
              filters=None, thresholds=None, tag="c"):
    """`cnvkit.py call` against `call.do_call` on the same written table. -> None or a description of the difference.
    female=None leaves the sample sex to be inferred by both sides."""
    from cnvlib import call, cmdutil
    from skgenome import tabio

    src = os.path.join(tmpdir, f"{tag}.in.cns")
    tabio.write(cnarr, src)
    out_cli = os.path.join(tmpdir, f"{tag}.cli.cns")
    out_api = os.path.join(tmpdir, f"{tag}.api.cns")
    argv = ["call", src, "-m", method, "--ploidy", ploidy, "-o", out_cli]
    if purity is not None:
        argv += ["--purity", repr(float(purity))]
    if male_ref:
        argv.append("-y")
    if female is not None:
        argv += ["-x", _sex_word(female)]
    if par:
        argv += ["--diploid-parx-genome", par]
    for f in filters or []:
        argv += ["--filter", f]
    if thresholds is not None:
        argv.append("-t=" + ",".join(repr(float(t)) for t in thresholds))
    try:
        run(argv)
        cli_err = None
    except Exception as exc:  # noqa: BLE001
        cli_err = f"{type(exc).__name__}: {exc}"
    arr = read_cna(src)
    try:
        # what the command documents: sample sex is only consulted for purity < 1; given -> used, else inferred
        is_female = None
        if purity and purity < 1.0:
            is_female = cmdutil.verify_sample_sex(arr, None if female is None else _sex_word(female), male_ref, par)
        kw = {} if thresholds is None else {"thresholds": tuple(float(t) for t in thresholds)}
        res = call.do_call(arr, None, method, ploidy, purity, male_ref, is_female, par, list(filters or []), **kw)
        tabio.write(res, out_api)
        api_err = None
    except Exception as exc:  # noqa: BLE001
        api_err = f"{type(exc).__name__}: {exc}"
    if cli_err or api_err:
        if bool(cli_err) != bool(api_err):
            return f"command {' '.join(map(str, argv[2:]))}: command -> {cli_err or 'ok'}, library call -> {api_err or 'ok'}"
        return None
    d = table_diff(read_cna(out_cli).data, read_cna(out_api).data)
    return None if d is None else f"command {' '.join(map(str, argv[2:]))}: output differs from do_call on the same file: {d}"
