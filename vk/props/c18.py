"""C18 - VCF genotypes become allele frequencies and per-segment BAF as defined."""
import math
import os
import shutil
import tempfile

from hypothesis import strategies as st

from vk import gen
from vk import models as M

ID = "C18"
LEVEL = "exploration"
RULE = (
    "Hypothesis draws VCF texts with a full header (contigs, INFO SOMATIC/DP, FORMAT GT/AD/DP, FILTERs, optional "
    "PEDIGREE Derived/Original), 1..3 samples, 0..60 (quick) biallelic records on 1..3 contigs (SNVs and indels; "
    "GT 0/0, 0/1, 1/0, 1/1, 0|1, ./.; AD/DP present, absent from FORMAT, or '.'; SOMATIC flag; FILTER "
    "PASS/other), sample/normal selectors by name or index (incl. conflicting with PEDIGREE), min_depth, "
    "skip_somatic, zygosity_freq, and range tables over the same contigs. A third of the cases move records and "
    "ranges to 2.4e8 or beyond 2^31. Oracle: a line-by-line interpretation in the harness (documented sample "
    "precedence; start = POS-1; depth = DP else sum AD; alt_count = AD[1]; alt_freq; zygosity from GT; filters on "
    "the normal when paired), load_het_snps = exactly the germline-heterozygous non-somatic records, BAF per "
    "range = median of mirrored het frequencies (NaN when none), TumorBoost and purity formulas. Records with "
    "missing fields are only required to be finite. Non-trivial = a file with >= 1 het, >= 1 hom and >= 1 "
    "filtered record and a range holding >= 2 hets; distinct = distinct case JSON."
)
CLI_SHARE = 4  # one case in CLI_SHARE also goes through the command line (vk/cli.py)
QUICK = {"examples": 2400, "shards": 16, "budget_s": 400}
THOROUGH = {"examples": 16000, "shards": 16, "budget_s": 3000}
ASSUMPTIONS = [
    "biallelic records only; a record whose chosen sample has GT ./. or a '.' in DP/AD is 'incomplete': its values are only required to be finite and it may or may not pass the depth filter",
    "when no record is germline-heterozygous load_het_snps / heterozygous() fall back to all records (documented); the 'exactly the hets' clause is asserted when at least one het exists",
    "load_het_snps with zygosity_freq=None and a normal whose genotypes are all 0/0 switches to frequency-based genotypes (documented Mutect2 work-around): not asserted",
    "with above_half=None and the het frequencies of a range balanced around 0.5 either mirror side is accepted",
    "TumorBoost is asserted where the normal frequency is strictly between 0 and 1",
]
CONTIGS = ["chr1", "chr2", "chrX"]
GTS = ["0/0", "0/1", "0/1", "0/1", "1/0", "1/1", "0|1", "./."]


@st.composite
def strategy(draw):
    ncont = draw(st.integers(1, 3))
    nsamp = draw(st.integers(1, 3))
    samples = ["TUM", "NORM", "EXTRA"][:nsamp]
    if draw(st.booleans()):
        samples = samples[::-1]
    ped = None
    if nsamp >= 2 and draw(st.integers(0, 2)) == 0:
        d, o = draw(st.sampled_from([(0, 1), (1, 0), (nsamp - 1, 0)]))
        if d != o:
            ped = [samples[d], samples[o]]
            if nsamp == 3 and draw(st.booleans()):
                # two declared pairs sharing one normal, in either declaration order
                third = [x for x in range(3) if x not in (d, o)][0]
                ped = [[samples[d], samples[o]], [samples[third], samples[o]]]
                if draw(st.booleans()):
                    ped.reverse()
    fmt_ad = draw(st.integers(0, 7)) > 0
    fmt_dp = draw(st.integers(0, 3)) > 0
    nrec = draw(st.one_of(st.integers(0, 8), st.integers(0, 60)))
    records = []
    pos = [10] * ncont
    # a third of the files are dense (records at most 40 bases apart), so that ranges hold three and more hets and the
    # per-range decisions (mirroring side by the median) have something to decide
    spacing = draw(st.sampled_from([400, 400, 40]))
    for _ in range(nrec):
        c = draw(st.integers(0, ncont - 1))
        pos[c] += draw(st.integers(1, spacing))
        kind = draw(st.sampled_from(["snv", "snv", "snv", "ins", "del"]))
        if kind == "snv":
            ref, alt = draw(st.sampled_from([("A", "G"), ("C", "T"), ("G", "C")]))
        elif kind == "ins":
            ref, alt = "A", "A" + draw(st.sampled_from(["T", "TG", "TGCA"]))
        else:
            ref, alt = "A" + draw(st.sampled_from(["T", "TG", "TGCA"])), "A"
        gs = []
        for _s in range(nsamp):
            gt = draw(st.sampled_from(GTS))
            tot = draw(st.one_of(st.integers(0, 12), st.integers(10, 120)))
            if gt in ("0/0",):
                a = draw(st.integers(0, min(2, tot)))
            elif gt in ("1/1",):
                a = tot - draw(st.integers(0, min(2, tot)))
            else:
                a = draw(st.integers(0, tot))
            ad = [tot - a, a] if draw(st.integers(0, 9)) else None
            dp = tot + draw(st.sampled_from([0, 0, 0, 1, 3])) if draw(st.integers(0, 9)) else None
            gs.append({"gt": gt, "ad": ad, "dp": dp})
        records.append({"c": c, "pos": pos[c], "ref": ref, "alt": alt, "som": draw(st.integers(0, 5)) == 0,
                        "filt": draw(st.sampled_from(["PASS", "PASS", ".", "q10"])), "idp": draw(st.integers(0, 200)), "g": gs})
        pos[c] += len(ref)

    if nsamp >= 2 and draw(st.integers(0, 5)) == 0:
        # a caller that never genotypes the normal (Mutect2 style): the last sample is 0/0 in every record, whatever its
        # allele counts say - the regime of the library's "infer genotypes from frequencies" workaround
        for r in records:
            r["g"][-1]["gt"] = "0/0"

    def selector():
        k = draw(st.integers(0, 5))
        if k <= 2:
            return None
        if k == 3:
            return draw(st.integers(0, nsamp - 1))
        return draw(st.sampled_from(samples))

    sample_id = selector()
    normal_id = selector() if nsamp >= 2 else None
    # a sample cannot be its own normal
    def name_of(x):
        return samples[x] if isinstance(x, int) else x
    if normal_id is not None and name_of(normal_id) == name_of(sample_id):
        normal_id = None
    ranges = []
    for c in range(ncont):
        p = 0
        for _ in range(draw(st.integers(0, 4))):
            s = p + draw(st.integers(0, 600))
            e = s + draw(st.one_of(st.integers(1, 300), st.integers(300, 5000)))
            ranges.append([CONTIGS[c], s, e])
            p = e if draw(st.booleans()) else max(s, e - 50)
    return {"contigs": CONTIGS[:ncont], "samples": samples, "pedigree": ped, "fmt_ad": fmt_ad, "fmt_dp": fmt_dp,
            "records": records, "sample_id": sample_id, "normal_id": normal_id,
            "min_depth": draw(st.sampled_from([None, 0, 1, 10, 20, 50])), "skip_somatic": draw(st.booleans()),
            "het_min_depth": draw(st.sampled_from([0, 1, 10, 20])), "zyg_freq": draw(st.sampled_from([None, None, 0.25, 0.1, 0.0])),
            "ranges": ranges, "above_half": draw(st.sampled_from([None, True, False])), "tumor_boost": draw(st.booleans()),
            "purity": draw(st.sampled_from([None, 0.5, 0.8]))}


def ped_pairs(case):
    """Declared PEDIGREE pairs in declaration order: [(derived, original), ...]"""
    p = case["pedigree"]
    if not p:
        return []
    if isinstance(p[0], str):
        return [tuple(p)]
    return [tuple(x) for x in p]


# ------------------------------------------------------------------ rendering
def vcf_text(case):
    L = ["##fileformat=VCFv4.2", '##FILTER=<ID=q10,Description="Quality below 10">']
    L += [f"##contig=<ID={c},length=9000000000>" for c in case["contigs"]]
    L += ['##INFO=<ID=SOMATIC,Number=0,Type=Flag,Description="Somatic event">',
          '##INFO=<ID=DP,Number=1,Type=Integer,Description="Total depth">',
          '##FORMAT=<ID=GT,Number=1,Type=String,Description="Genotype">']
    if case["fmt_ad"]:
        L.append('##FORMAT=<ID=AD,Number=R,Type=Integer,Description="Allelic depths">')
    if case["fmt_dp"]:
        L.append('##FORMAT=<ID=DP,Number=1,Type=Integer,Description="Read depth">')
    for d, o in ped_pairs(case):
        L.append(f"##PEDIGREE=<Derived={d},Original={o}>")
    L.append("#CHROM\tPOS\tID\tREF\tALT\tQUAL\tFILTER\tINFO\tFORMAT\t" + "\t".join(case["samples"]))
    fmt = "GT" + (":AD" if case["fmt_ad"] else "") + (":DP" if case["fmt_dp"] else "")
    recs = sorted(case["records"], key=lambda r: (r["c"], r["pos"]))
    for r in recs:
        info = f"DP={r['idp']}" + (";SOMATIC" if r["som"] else "")
        cols = []
        for g in r["g"]:
            s = g["gt"]
            if case["fmt_ad"]:
                s += ":" + (f"{g['ad'][0]},{g['ad'][1]}" if g["ad"] else ".")
            if case["fmt_dp"]:
                s += ":" + (str(g["dp"]) if g["dp"] is not None else ".")
            cols.append(s)
        L.append(f"{case['contigs'][r['c']]}\t{r['pos']}\t.\t{r['ref']}\t{r['alt']}\t50\t{r['filt']}\t{info}\t{fmt}\t" + "\t".join(cols))
    return "\n".join(L) + "\n"


# ------------------------------------------------------------------ model
def choose(case, sample_id, normal_id):
    """Documented precedence -> (sample, normal or None)."""
    samples = case["samples"]
    if isinstance(sample_id, int):
        sample_id = samples[sample_id]
    if isinstance(normal_id, int):
        normal_id = samples[normal_id]
    if case["pedigree"]:
        pairs = ped_pairs(case)
    elif normal_id:
        pairs = [(s, normal_id) for s in samples if s != normal_id]
    else:
        pairs = [(s, None) for s in samples]
    if sample_id:
        pairs = [p for p in pairs if p[0] == sample_id]
        if not pairs:
            pairs = [(sample_id, None)]
    return pairs[0]


def zyg(gt):
    alle = set(gt.replace("|", "/").split("/"))
    if alle == {"."}:
        return None
    if len(alle) > 1:
        return 0.5
    return 0.0 if alle == {"0"} else 1.0


def interpret(case, r, name):
    """-> dict(depth, alt_count, alt_freq, zygosity, complete) for one record and sample name."""
    g = r["g"][case["samples"].index(name)]
    z = zyg(g["gt"])
    complete = z is not None
    depth = None
    if case["fmt_dp"]:
        if g["dp"] is None:
            complete = False
        else:
            depth = g["dp"]
    elif case["fmt_ad"]:
        if g["ad"] is None:
            complete = False
        else:
            depth = sum(g["ad"])
    else:
        depth = r["idp"]
    alt = None
    if case["fmt_ad"]:
        if g["ad"] is None:
            complete = False
        else:
            alt = g["ad"][1]
    else:
        complete = False  # no allele counts in the file: alt_count/alt_freq undefined
    freq = (alt / depth) if (complete and depth) else None
    if complete and not depth:
        complete = False  # depth 0: frequency undefined
    return {"depth": depth, "alt": alt, "freq": freq, "zyg": z, "complete": complete}


def nontrivial(case):
    sid, nid = choose(case, case["sample_id"], case["normal_id"])
    germ = nid or sid
    hets = [r for r in case["records"] if zyg(r["g"][case["samples"].index(germ)]["gt"]) == 0.5]
    homs = [r for r in case["records"] if zyg(r["g"][case["samples"].index(germ)]["gt"]) in (0.0, 1.0)]
    filt = [r for r in case["records"] if r["som"]]
    if not (hets and homs and filt):
        return False
    for c, s, e in case["ranges"]:
        if sum(1 for r in hets if case["contigs"][r["c"]] == c and r["pos"] - 1 < e and r["pos"] - 1 + len(r["alt"]) > s) >= 2:
            return True
    return False


def classify(case):
    labs = ["samples:%d" % len(case["samples"])]
    if case["pedigree"]:
        labs.append("pedigree" if len(ped_pairs(case)) == 1 else "pedigree:2-pairs")
    sid, nid = choose(case, case["sample_id"], case["normal_id"])
    labs.append("paired" if nid else "unpaired")
    if case["sample_id"] is not None:
        labs.append("sample_id:" + type(case["sample_id"]).__name__)
    if case["normal_id"] is not None:
        labs.append("normal_id:" + type(case["normal_id"]).__name__)
    if not case["fmt_ad"]:
        labs.append("no-AD")
    if not case["fmt_dp"]:
        labs.append("no-DP")
    if any(r["ref"] != r["alt"] and (len(r["ref"]) > 1 or len(r["alt"]) > 1) for r in case["records"]):
        labs.append("indels")
    if not case["records"]:
        labs.append("no-records")
    if case["zyg_freq"] is not None:
        labs.append("zygosity_freq")
    if case["tumor_boost"]:
        labs.append("tumor_boost")
    return labs


def known(case, v):
    return None


def _close(a, b, tol=1e-9):
    if a is None or b is None:
        return a is b
    if isinstance(a, float) and math.isnan(a):
        return isinstance(b, float) and math.isnan(b)
    if isinstance(b, float) and math.isnan(b):
        return False
    return abs(a - b) <= tol * max(1.0, abs(a), abs(b))


def mirrored_median(freqs, above_half):
    """-> list of acceptable values"""
    if not freqs:
        return [float("nan")]
    med = M.median(freqs)
    sides = [above_half] if above_half is not None else ([True, False] if abs(med - 0.5) < 1e-12 else [med > 0.5])
    out = []
    for side in sides:
        vals = [0.5 + abs(f - 0.5) if side else 0.5 - abs(f - 0.5) for f in freqs]
        out.append(M.median(vals))
    return out


def tumor_boost(t, n):
    if t < n:
        return 0.5 * t / n
    return 1 - 0.5 * (1 - t) / (1 - n)


def check_case(case):
    import numpy as np
    import pandas as pd
    from cnvlib import call, cmdutil
    from cnvlib.cnary import CopyNumArray
    from skgenome import GenomicArray, tabio

    out = []
    # where on the contigs the records and ranges sit (near the start, human-chromosome scale, beyond 2^31): a pure
    # function of the case (seeded change C18h narrowed the coordinates to 32 bits)
    off = gen.offset_for(case)
    if off:
        case = dict(case, records=[dict(r, pos=r["pos"] + off) for r in case["records"]],
                    ranges=[[c, s_ + off, e_ + off] for c, s_, e_ in case["ranges"]], offset=off)

    def bad(clause, detail):
        out.append({"clause": clause, "detail": f"{detail}; offset={off} samples={case['samples']} pedigree={case['pedigree']} sample_id={case['sample_id']!r} "
                    f"normal_id={case['normal_id']!r} FORMAT AD={case['fmt_ad']} DP={case['fmt_dp']}"})

    d = tempfile.mkdtemp(prefix="vk18.")
    try:
        path = os.path.join(d, "v.vcf")
        with open(path, "w") as fh:
            fh.write(vcf_text(case))
        sid, nid = choose(case, case["sample_id"], case["normal_id"])
        recs = sorted(case["records"], key=lambda r: (r["c"], r["pos"]))
        varr = tabio.read(path, "vcf", sample_id=case["sample_id"], normal_id=case["normal_id"],
                          min_depth=case["min_depth"], skip_somatic=case["skip_somatic"])
        cols = set(varr.data.columns)
        if len(varr) and (nid is not None) != ("n_depth" in cols):
            bad("selection", f"expected pair ({sid}, {nid}) by the documented precedence, table is {'paired' if 'n_depth' in cols else 'unpaired'}")
            return out
        got = {(r.chromosome, int(r.start)): r for r in varr.data.itertuples(index=False)}
        if len(got) != len(varr):
            bad("rows", "duplicate (chromosome, start) rows in the table")
        seen_keys = set()
        for r in recs:
            key = (case["contigs"][r["c"]], r["pos"] - 1)
            seen_keys.add(key)
            t = interpret(case, r, sid)
            n = interpret(case, r, nid) if nid else None
            filt_on = n if nid else t
            # expectation: keep / drop / either
            expect = "keep"
            if case["skip_somatic"] and r["som"]:
                expect = "drop"
            elif case["min_depth"]:
                if filt_on["depth"] is None or not filt_on["complete"] and filt_on["depth"] is None:
                    expect = "either"
                elif filt_on["depth"] < case["min_depth"]:
                    expect = "drop"
                # the depth filter is skipped altogether when no record has a depth
                if expect == "drop" and not any((interpret(case, x, sid)["depth"] or 0) for x in recs):
                    expect = "either"
            row = got.get(key)
            if expect == "keep" and row is None:
                bad("rows:missing", f"record {key} should be reported (filters min_depth={case['min_depth']} skip_somatic={case['skip_somatic']})")
                continue
            if expect == "drop" and row is not None:
                bad("rows:not-filtered", f"record {key} (somatic={r['som']}, depth {filt_on['depth']}) should be filtered "
                                         f"(min_depth={case['min_depth']} on the {'normal' if nid else 'sample'}, skip_somatic={case['skip_somatic']})")
                continue
            if row is None:
                continue
            if int(row.end) != r["pos"] - 1 + len(r["alt"]) or row.ref != r["ref"] or row.alt != r["alt"]:
                bad("record:coords", f"{key}: end/ref/alt = {row.end}/{row.ref}/{row.alt}, file says ref {r['ref']} alt {r['alt']}")
            if bool(row.somatic) != r["som"]:
                bad("record:somatic", f"{key}: somatic={row.somatic}, file flag {r['som']}")
            for who, m, pre in ((sid, t, ""), (nid, n, "n_")):
                if who is None:
                    continue
                vals = {k: float(getattr(row, pre + k)) for k in ("zygosity", "depth", "alt_count", "alt_freq")}
                if not all(math.isfinite(v) for v in vals.values()) or vals["zygosity"] not in (0.0, 0.5, 1.0):
                    bad("record:finite", f"{key} sample {who}: {vals}")
                    continue
                if m["zyg"] is not None and vals["zygosity"] != m["zyg"]:
                    bad("record:zygosity", f"{key} sample {who}: zygosity {vals['zygosity']}, GT {r['g'][case['samples'].index(who)]['gt']}")
                if m["complete"]:
                    if vals["depth"] != m["depth"] or vals["alt_count"] != m["alt"] or not _close(vals["alt_freq"], m["freq"]):
                        bad("record:values", f"{key} sample {who}: depth/alt_count/alt_freq = {vals['depth']}/{vals['alt_count']}/{vals['alt_freq']}, "
                                             f"file gives {m['depth']}/{m['alt']}/{m['freq']} ({r['g'][case['samples'].index(who)]})")
        for key in got:
            if key not in seen_keys:
                bad("rows:invented", f"row {key} is not a record of the file")
        order = [(r.chromosome, int(r.start)) for r in varr.data.itertuples(index=False)]
        if order != sorted(order, key=lambda k: (case["contigs"].index(k[0]) if k[0] in case["contigs"] else 9, k[1])):
            bad("rows:order", "rows are not sorted by (contig, start)")

        # ------------------------------------------------ load_het_snps
        hets = cmdutil.load_het_snps(path, case["sample_id"], case["normal_id"], case["het_min_depth"], case["zyg_freq"], False)
        germ = nid or sid
        gi = case["samples"].index(germ)
        all_normal_ref = nid is not None and not any(zyg(r["g"][gi]["gt"]) not in (0.0, None) for r in recs)
        decidable = not (case["zyg_freq"] is None and all_normal_ref)
        exp_keys, either_keys = [], set()
        for r in recs:
            key = (case["contigs"][r["c"]], r["pos"] - 1)
            t = interpret(case, r, sid)
            g = interpret(case, r, germ)
            if r["som"]:
                continue
            if case["het_min_depth"]:
                if g["depth"] is None:
                    either_keys.add(key)
                    continue
                if g["depth"] < case["het_min_depth"]:
                    continue
            if case["zyg_freq"] is not None:
                if not g["complete"] or (nid and not t["complete"]):
                    either_keys.add(key)
                    continue
                # "at least het_freq -> heterozygous, at least hom_freq -> homozygous" (zygosity_from_freq's documented rule):
                # a frequency exactly on a cut-off belongs to the upper class. count / depth and 1 - zygosity_freq are the
                # same IEEE operations here and there, so exact equality is decidable (seeded change C18o moved both
                # boundaries down by using searchsorted's default side)
                zf = case["zyg_freq"]
                if zf <= g["freq"] < 1 - zf:
                    exp_keys.append(key)
            else:
                if g["zyg"] is None:
                    either_keys.add(key)
                    continue
                if g["zyg"] == 0.5:
                    exp_keys.append(key)
        if not any((interpret(case, x, sid)["depth"] or 0) for x in recs):
            decidable = False  # no depth anywhere: the depth filter is skipped with a warning
        got_h = [(r.chromosome, int(r.start)) for r in hets.data.itertuples(index=False)]
        # A record that is non-reference in the tumour and reference in its paired normal is tumour-only: never a
        # germline-het record, and not part of the documented "no het at all -> every record" fallback either (seeded
        # change C18j kept such records when *every* surviving record was tumour-only)
        # (not when the genotype-less-normal workaround may apply: every record that survives the SOMATIC-flag and depth
        # filters has a reference or missing normal genotype, so the library infers genotypes from frequencies instead)
        # (a record whose depth is missing may or may not pass the depth filter: only certain survivors count)
        surv = [r for r in recs if not r["som"] and (not case["het_min_depth"] or (interpret(case, r, germ)["depth"] is not None
                                                     and interpret(case, r, germ)["depth"] >= case["het_min_depth"]))]
        workaround = case["zyg_freq"] is None and not any(zyg(r["g"][gi]["gt"]) not in (0.0, None) for r in surv)
        if decidable and nid is not None and not workaround:
            zf = case["zyg_freq"]
            for r in recs:
                key = (case["contigs"][r["c"]], r["pos"] - 1)
                t, g = interpret(case, r, sid), interpret(case, r, nid)
                if key in either_keys or not (t["complete"] and g["complete"]):
                    continue
                if zf is None:
                    tz, nz = t["zyg"], g["zyg"]
                else:
                    tz, nz = (0.0 if t["freq"] < zf else 0.5), (0.0 if g["freq"] < zf else 0.5)
                if tz != 0.0 and nz == 0.0 and key in got_h:
                    bad("hets:tumour-only", f"load_het_snps kept {key}, non-reference in the tumour {sid} and reference in the normal {nid} "
                                            f"(zygosity_freq={zf})")
                    break
        if decidable and exp_keys:
            a = [k for k in got_h if k not in either_keys]
            if a != exp_keys:
                miss = [k for k in exp_keys if k not in a][:3]
                extra = [k for k in a if k not in exp_keys][:3]
                bad("hets", f"load_het_snps(min_depth={case['het_min_depth']}, zygosity_freq={case['zyg_freq']}): germline-het records missing {miss}, "
                            f"non-het records kept {extra} (germline sample {germ})")

        # ------------------------------------------------ BAF per range
        if case["ranges"] and len(hets) and "alt_freq" in hets:

            rg = GenomicArray(gen.relabel(pd.DataFrame([tuple(x) for x in case["ranges"]], columns=["chromosome", "start", "end"]),
                                          gen.spec_for(case, "ranges")))
            hrows = [(r.chromosome, int(r.start), int(r.end), float(r.alt_freq),
                      float(r.n_alt_freq) if "n_alt_freq" in hets else None,
                      float(r.n_zygosity if "n_zygosity" in hets else r.zygosity)) for r in hets.data.itertuples(index=False)]
            is_het = [z not in (0.0, 1.0) for *_x, z in hrows]
            use = [h for h, k in zip(hrows, is_het) if k] if any(is_het) else hrows
            boost = case["tumor_boost"] and "n_alt_freq" in hets
            hets_before = hets.data.copy()
            bafs = hets.baf_by_ranges(rg, above_half=case["above_half"], tumor_boost=boost)
            # the table asked keeps its rows' own frequencies (alt_freq = count / depth), whatever options the question had
            # (seeded change C18m wrote the mirrored / boosted values into an all-het table, so the next question got them)
            if not hets.data.equals(hets_before):
                changed = [c for c in hets_before.columns if c not in hets.data.columns or not hets.data[c].equals(hets_before[c])]
                bad("baf:table-modified", f"baf_by_ranges(above_half={case['above_half']}, tumor_boost={boost}) changed column(s) {changed} of the variant table")
            if len(bafs) != len(case["ranges"]):
                bad("baf:length", f"{len(bafs)} values for {len(case['ranges'])} ranges")
            else:
                for i, (c, s, e) in enumerate(case["ranges"]):
                    inside = [h for h in use if h[0] == c and h[2] > s and h[1] < e]
                    if boost:
                        if any(not (0 < h[4] < 1) for h in inside):
                            continue
                        freqs = [tumor_boost(h[3], h[4]) for h in inside]
                    else:
                        freqs = [h[3] for h in inside]
                    want = mirrored_median(freqs, case["above_half"])
                    g = float(bafs.iloc[i])
                    if not any(_close(g, w) for w in want):
                        bad("baf:value", f"range {c}:{s}-{e} (above_half={case['above_half']}, tumor_boost={boost}): BAF {g!r}, "
                                         f"mirrored median of {freqs[:6]} is {want}")
                        break
                # through do_call: the baf column stays attached to its own segment, purity rescaling by its formula
                seg = CopyNumArray(pd.DataFrame({"chromosome": [x[0] for x in case["ranges"]], "start": [x[1] for x in case["ranges"]],
                                                 "end": [x[2] for x in case["ranges"]], "gene": "-", "log2": 0.0, "probes": 10, "weight": 1.0}))
                seg.sort()
                gen.relabel(seg.data, gen.spec_for(case, "seg"))  # a filtered / sliced segment table keeps its row labels
                base = hets.baf_by_ranges(seg)
                res = call.do_call(seg, hets, method="none", purity=case["purity"])
                for i in range(len(seg)):
                    b = float(base.iloc[i])
                    w = b if not case["purity"] else (b - 0.5 * (1 - case["purity"])) / case["purity"]
                    if (res.chromosome.iat[i], int(res.start.iat[i]), int(res.end.iat[i])) != (seg.chromosome.iat[i], int(seg.start.iat[i]), int(seg.end.iat[i])) \
                            or not _close(float(res["baf"].iat[i]), w):
                        bad("baf:call", f"do_call baf[{i}] = {float(res['baf'].iat[i])!r} for segment {seg.chromosome.iat[i]}:{seg.start.iat[i]}, "
                                        f"expected {w!r} (purity {case['purity']})")
                        break
                # command-line tier (a quarter of the cases, selectors by name): `cnvkit.py call -v ...` on the written
                # segments and the same VCF = load_het_snps + do_call on the same files
                if gen.pick(case, "cli", 4) == 0 and not out and not isinstance(case["sample_id"], int) \
                        and not isinstance(case["normal_id"], int):
                    from vk import cli

                    cli.use_case(case)

                    diff = cli.call_diff(seg, d, "none", 2, case["purity"], False, None, None, None, None, vcf=path,
                                         sample_id=case["sample_id"], normal_id=case["normal_id"],
                                         min_variant_depth=case["het_min_depth"], zygosity_freq=case["zyg_freq"])
                    if diff:
                        bad("cli:call-vcf", diff)
    finally:
        shutil.rmtree(d, ignore_errors=True)
    return out
