"""C15 - centring is a uniform shift zeroing the autosomes; sample sex is inferred right."""
import itertools
import math

import numpy as np
from hypothesis import strategies as st

from vk import models as M

ID = "C15"
LEVEL = "exploration"
RULE = (
    "Hypothesis draws (a) 'center' cases: bin tables with 1..24 chromosomes in either naming style or none named like an "
    "autosome (scaffold_7), arbitrary per-chromosome levels and sizes (1..60 bins), seeded noise or tie-rich palettes, "
    "null-coverage bins (log2 -20, depth 0), X bins inside and outside PAR1/PAR2, Y bins, an estimator (median, mean, biweight, "
    "mode), by_chrom, skip_low and a PAR genome; (b) 'sex' cases: sample sex x reference sex x with/without Y x with/without "
    "weights x noise sd 0.01..0.3 x 40..400 X bins x 1..22 autosomes with X/Y at the documented levels, both naming styles, PAR "
    "genome with bins inside PAR on a subset. Oracle (a): after - before is one constant and the harness restatement of the "
    "estimator (two-level when by_chrom) over the selected bins of the result is 0; (b) planted truth for guess_xx / do_sex, the "
    "+-1/0 table for shift_xx and the 0/-1 pattern for expect_flat_log2. Non-trivial (a) = >= 2 autosomes with different levels "
    "and a sex-chromosome or null bin; (b) every case; distinct = distinct case JSON."
)
CLI_SHARE = 4  # one case in CLI_SHARE also goes through the command line (vk/cli.py)
QUICK = {"examples": 3200, "shards": 16, "budget_s": 300}
THOROUGH = {"examples": 40000, "shards": 16, "budget_s": 2400}
ASSUMPTIONS = [
    "null-coverage bins are (log2 <= -20, depth 0); ordinary bins have log2 > -10 and depth > 0, so the skip_low threshold itself is not probed",
    "X bins lie wholly inside or wholly outside PAR1/PAR2 (documented GRCh37/GRCh38 coordinates restated in the harness)",
    "for estimator ties (mode: several data points of maximal density within 1e-9; biweight: stopping test within rounding of its threshold) any tied answer is accepted",
    "sex cases: autosomes centred at 0 with the same noise as X, at least 40 X bins and at least 40 autosomal bins, Y (when present) at 0 for male and <= -3 for female samples",
    "the centring clause 'estimator becomes zero' is asserted to 1e-9 relative to the data magnitude",
]
PAR = {
    "grch37": {"X": [(60000, 2699520), (154931043, 155260560)], "Y": [(10000, 2649520), (59034049, 59363566)]},
    "grch38": {"X": [(10000, 2781479), (155701382, 156030895)], "Y": [(10000, 2781479), (56887902, 57217415)]},
}
ESTIMATORS = ["median", "mean", "biweight", "mode"]


@st.composite
def strategy(draw):
    kind = draw(st.sampled_from(["center", "sex"]))
    style = draw(st.sampled_from(["chr", ""]))
    par = draw(st.sampled_from([None, None, "grch37", "grch38"]))
    seed = draw(st.integers(0, 2 ** 31))
    if kind == "center":
        naming = draw(st.sampled_from(["auto", "auto", "auto", "scaffold"]))
        nauto = draw(st.one_of(st.integers(1, 4), st.integers(1, 22)))
        autos = sorted(draw(st.lists(st.integers(1, 22), min_size=nauto, max_size=nauto, unique=True)))
        chroms = []
        for a in autos:
            chroms.append({"name": (style + str(a)) if naming == "auto" else f"scaffold_{a}", "n": draw(st.integers(1, 60)),
                           "level": draw(st.one_of(st.sampled_from([0.0, 0.5, -1.0]), st.integers(-40, 40).map(lambda k: k / 8.0)))})
        if draw(st.booleans()):
            chroms.append({"name": style + "X", "n": draw(st.integers(1, 60)), "level": draw(st.sampled_from([0.0, -1.0, 1.0, 0.3])),
                           "par_bins": draw(st.integers(0, 12))})
        if draw(st.booleans()):
            chroms.append({"name": style + "Y", "n": draw(st.integers(1, 30)), "level": draw(st.sampled_from([0.0, -1.0, -5.0]))})
        return {"kind": "center", "style": style, "par": par, "seed": seed, "chroms": chroms,
                "noise": draw(st.sampled_from([0.0, 0.05, 0.3, "palette"])),
                "null_frac": draw(st.sampled_from([0.0, 0.0, 0.1, 0.4])), "has_depth": draw(st.booleans()),
                "estimator": draw(st.sampled_from(ESTIMATORS)), "by_chrom": draw(st.booleans()), "skip_low": draw(st.booleans())}
    nauto = draw(st.one_of(st.integers(1, 3), st.integers(1, 22)))
    autos = sorted(draw(st.lists(st.integers(1, 22), min_size=nauto, max_size=nauto, unique=True)))
    per = max(draw(st.integers(5, 80)), -(-40 // nauto))
    return {"kind": "sex", "style": style, "par": par, "seed": seed, "autos": autos, "per_auto": per,
            "female": draw(st.booleans()), "male_ref": draw(st.booleans()),
            "nx": draw(st.one_of(st.integers(40, 60), st.integers(40, 400))), "ny": draw(st.sampled_from([0, 0, 5, 20, 60])),
            "par_bins": draw(st.sampled_from([0, 0, 5, 30])), "weights": draw(st.booleans()),
            "sd": draw(st.one_of(st.sampled_from([0.01, 0.3]), st.integers(1, 30).map(lambda k: k / 100.0))),
            "ylevel": draw(st.sampled_from([-3.5, -5.0, -8.0]))}


# ------------------------------------------------------------------ builders
def _x_bins(rng, n, npar, par):
    """n ordinary X bins outside PAR plus npar inside (when a PAR genome is in play they sit inside PAR1 / PAR2 of it;
    without one they are just early X bins)."""
    coords = []
    g = par or "grch38"
    (p1s, p1e), (p2s, p2e) = PAR[g]["X"]
    for i in range(npar):
        # the first four sit flush with the documented PAR boundaries (half-open: still inside) - seeded change C15m
        # moved every PAR start by one base
        if i == 0:
            coords.append((p1s, p1s + 500))
        elif i == 1:
            coords.append((p2e - 500, p2e))
        elif i == 2:
            coords.append((p1e - 500, p1e))
        elif i == 3:
            coords.append((p2s, p2s + 500))
        elif i % 2 == 0:
            s = p1s + 1000 * (i + 1)
            coords.append((s, s + 500))
        else:
            s = p2s + 1000 * (i + 1)
            coords.append((s, s + 500))
    coords = [c for c in coords if (p1s <= c[0] and c[1] <= p1e) or (p2s <= c[0] and c[1] <= p2e)]
    pos = 3000000
    for _ in range(n):
        coords.append((pos, pos + 800))
        pos += 1000 + int(rng.integers(0, 50000))
    return sorted(coords)


def in_par(chrom_kind, s, e, par):
    if par is None:
        return False
    return any(s >= a and e <= b for a, b in PAR[par][chrom_kind])


def build_center(case):
    rng = np.random.default_rng(case["seed"])
    rows = []
    for c in case["chroms"]:
        bare = c["name"][3:] if c["name"].startswith("chr") else c["name"]
        if bare == "X":
            coords = _x_bins(rng, c["n"], c.get("par_bins", 0), case["par"])
        else:
            coords, pos = [], 20000
            for _ in range(c["n"]):
                coords.append((pos, pos + 500))
                pos += 1000 + int(rng.integers(0, 5000))
        for s, e in coords:
            if case["noise"] == "palette":
                v = c["level"] + float(rng.integers(-3, 4)) / 4.0
            else:
                v = c["level"] + float(rng.normal(0, case["noise"])) if case["noise"] else c["level"]
            null = rng.random() < case["null_frac"]
            rows.append({"chromosome": c["name"], "start": s, "end": e, "gene": "G", "log2": -20.0 - float(rng.integers(0, 3)) if null else v,
                         "depth": 0.0 if null else float(2 ** v * 100)})
    return rows


def build_sex(case):
    rng = np.random.default_rng(case["seed"])
    style, sd = case["style"], case["sd"]
    rows = []

    def add(name, coords, level, noise=sd):
        for s, e in coords:
            rows.append({"chromosome": name, "start": s, "end": e, "gene": "G", "log2": level + float(rng.normal(0, noise)),
                         "weight": float(rng.uniform(0.1, 1.0))})

    for a in case["autos"]:
        add(style + str(a), [(20000 + 1000 * i, 20500 + 1000 * i) for i in range(case["per_auto"])], 0.0)
    if case["male_ref"]:
        xlevel = 1.0 if case["female"] else 0.0
    else:
        xlevel = 0.0 if case["female"] else -1.0
    xcoords = _x_bins(rng, case["nx"], case["par_bins"], case["par"])
    for s, e in xcoords:
        lvl = xlevel
        if in_par("X", s, e, case["par"]):
            lvl = 0.0  # PAR-X is diploid in both sexes
        add(style + "X", [(s, e)], lvl)
    if case["ny"]:
        ylevel = case["ylevel"] if case["female"] else 0.0
        add(style + "Y", [(3000000 + 1000 * i, 3000500 + 1000 * i) for i in range(case["ny"])], ylevel,
            noise=max(sd, 1.0) if case["female"] else sd)
    return rows


# ------------------------------------------------------------------ estimator restatement
def est_candidates(name, vals):
    vals = [float(v) for v in vals]
    n = len(vals)
    if n == 0:
        return [float("nan")]
    if n == 1:
        return [vals[0]]
    if name == "median":
        return [M.median(vals)]
    if name == "mean":
        return [sum(vals) / n]
    if name == "biweight":
        return sorted(set(M.biweight_location_candidates(vals)))
    if name == "mode":
        if min(vals) == max(vals):
            return [vals[0]]
        dens = M.kde_density_at_points(vals)
        mx = float(dens.max())
        return sorted({v for v, d in zip(vals, dens) if d >= mx * (1 - 1e-9)})
    raise ValueError(name)


def two_level(name, groups, by_chrom, limit=256):
    """-> list of acceptable centre values, or None when the tie combinations exceed `limit`."""
    if not by_chrom:
        return est_candidates(name, [v for g in groups for v in g])
    per = [est_candidates(name, g) for g in groups if len(g)]
    total = 1
    for p in per:
        total *= len(p)
        if total > limit:
            return None
    out = set()
    for combo in itertools.product(*per):
        out.update(est_candidates(name, list(combo)))
    return sorted(out)


def nontrivial(case):
    if case["kind"] == "sex":
        return True
    autos = [c for c in case["chroms"] if c["name"].replace("chr", "").isdigit()]
    other = [c for c in case["chroms"] if c["name"].replace("chr", "") in ("X", "Y")]
    return len({c["level"] for c in autos}) >= 2 and (bool(other) or case["null_frac"] > 0)


def classify(case):
    if case["kind"] == "sex":
        return ["sex", "sex:" + ("F" if case["female"] else "M") + ("/maleref" if case["male_ref"] else "/femaleref"),
                "Y-bins" if case["ny"] else "no-Y", "weights" if case["weights"] else "no-weights",
                "par" if case["par"] else "no-par"] + (["par-bins"] if case["par"] and case["par_bins"] else [])
    labs = ["center", "est:" + case["estimator"], "by_chrom" if case["by_chrom"] else "flat"]
    if case["skip_low"]:
        labs.append("skip_low")
    if case["null_frac"]:
        labs.append("null-bins")
    if any(c["name"].startswith("scaffold") for c in case["chroms"]):
        labs.append("no-autosome-names")
    if case["par"] and any(c.get("par_bins") for c in case["chroms"]):
        labs.append("par-x-bins")
    return labs


def known(case, v):
    return None


def check_case(case):
    import pandas as pd
    from cnvlib.cnary import CopyNumArray

    out = []

    def bad(clause, detail):
        out.append({"clause": clause, "detail": detail})

    if case["kind"] == "center":
        rows = build_center(case)
        from vk import gen

        # centring is defined per chromosome, not per run of rows: half of the cases hand the rows over interleaved,
        # reversed, shuffled or with a few rows of the first chromosome stacked at the end (seeded change C15j cut the
        # table wherever the chromosome name changes between consecutive rows)
        rows = [rows[i] for i in gen.row_order(case, [r["chromosome"] for r in rows])]
        df = pd.DataFrame(rows)
        if not case["has_depth"]:
            df = df.drop(columns=["depth"])

        # (one table in eight with labels restarting on every chromosome: target and antitarget tables concatenated without
        # renumbering; seeded change C15o dropped the low-coverage rows by label)
        df = gen.relabel(df, "perchrom" if gen.pick(case, "dup", 8) == 0 and "row_labels" not in case else gen.spec_for(case))
        cna = CopyNumArray(df.copy(), {"sample_id": "s"})
        before = df["log2"].values.copy()
        cna.center_all(estimator=case["estimator"], by_chrom=case["by_chrom"], skip_low=case["skip_low"],
                       diploid_parx_genome=case["par"])
        after = cna.data["log2"].values
        if len(after) != len(before):
            bad("center:rows", f"{len(after)} rows after centring {len(before)}")
            return out
        for col in df.columns:
            if col != "log2" and not cna.data[col].equals(df[col]):
                bad("center:other-columns", f"column {col} changed")
        d = after - before
        scale = max(1.0, float(np.abs(before).max()))
        if float(d.max() - d.min()) > 1e-12 * scale:
            bad("center:uniform-shift", f"after - before ranges over [{d.min()!r}, {d.max()!r}] (estimator {case['estimator']})")
            return out
        # selected bins (decided on the table as given)
        names = [r["chromosome"] for r in rows]
        auto_like = [bool(n.replace("chr", "", 1).isdigit()) if n.startswith("chr") else n.isdigit() for n in names]
        groups = {}
        for i, r in enumerate(rows):
            bare = r["chromosome"][3:] if r["chromosome"].startswith("chr") else r["chromosome"]
            if any(auto_like):
                sel = auto_like[i] or (bare == "X" and in_par("X", r["start"], r["end"], case["par"]))
            else:
                sel = True
            if sel and case["skip_low"] and (r["log2"] <= -15 or (case["has_depth"] and r["depth"] == 0)):
                sel = False
            if sel:
                groups.setdefault(r["chromosome"], []).append(float(after[i]))
        low_auto = [auto_like[i] and case["skip_low"] and (r["log2"] <= -15 or (case["has_depth"] and r["depth"] == 0)) for i, r in enumerate(rows)]
        if not groups or (any(auto_like) and sum(low_auto) == sum(auto_like)):
            # every autosome-named bin is null-coverage and skipped: the estimator of "the autosomal bins" is undefined
            # (cnvkit then falls back to all remaining bins, PAR or not); nothing is asserted
            return out
        cands = two_level(case["estimator"], list(groups.values()), case["by_chrom"])
        if cands is None:
            return out
        sel_scale = max(1.0, max(abs(v) for g in groups.values() for v in g))
        if not any(abs(c) <= 1e-9 * sel_scale for c in cands):
            bad("center:estimator-zero", f"estimator {case['estimator']} (by_chrom={case['by_chrom']}, skip_low={case['skip_low']}, "
                                         f"par={case['par']}) of the selected bins after centring is {cands[:4]}, not 0; shift applied {d[0]!r}; "
                                         f"groups {[(k, len(v)) for k, v in groups.items()][:8]}")
        # ---- the flat expectation on this table, whichever chromosomes it holds (a panel may have Y bins and no X bin:
        # seeded change C15n derived the X / Y labels from the presence of a chrX row): -1 on Y, -1 on non-PAR X under a
        # male reference, 0 elsewhere
        fresh = CopyNumArray(df.copy(), {"sample_id": "s"})
        # (cnvkit reads the naming style off the first row: a table that mixes scaffold_N names with chrX / chrY is in
        # neither of the two naming styles the claim covers, so it is not asked)
        one_style = all(r["chromosome"].startswith("chr") == rows[0]["chromosome"].startswith("chr") for r in rows)
        for male_ref in ((False, True) if one_style else ()):
            flat = np.asarray(fresh.expect_flat_log2(male_ref, case["par"]), dtype=float)
            want_flat = []
            for r in rows:
                bare = r["chromosome"][3:] if r["chromosome"].startswith("chr") else r["chromosome"]
                if bare == "Y":
                    # (a PAR-Y bin under a male reference with a PAR genome is left open: cnvkit expects no coverage
                    # there because everything maps to X, and the statement does not speak of PAR-Y)
                    open_ = male_ref and case["par"] and "Y" in PAR[case["par"]] and in_par("Y", r["start"], r["end"], case["par"])
                    want_flat.append(None if open_ else -1.0)
                elif bare == "X" and male_ref and not in_par("X", r["start"], r["end"], case["par"]):
                    want_flat.append(-1.0)
                else:
                    want_flat.append(0.0)
            wrong = [i for i, w in enumerate(want_flat) if w is not None and flat[i] != w]
            if wrong:
                k = wrong[0]
                bad("center:expect_flat", f"expect_flat_log2(male_reference={male_ref})[{k}] = {flat[k]!r} for {rows[k]['chromosome']}:{rows[k]['start']}, "
                                          f"expected {want_flat[k]!r}; chromosomes {list(dict.fromkeys(r['chromosome'] for r in rows))}")
                break
        # ---- command-line tier (a quarter of the per-chromosome cases): `cnvkit.py call --center EST [--drop-low-coverage]
        # [--diploid-parx-genome G] -m none` on the written table = center_all + do_call on the same file
        if gen.pick(case, "cli", 4) == 0 and not out and case["by_chrom"]:
            import shutil
            import tempfile

            from vk import cli

            tmp = tempfile.mkdtemp(prefix="vk15.")
            try:
                diff = cli.call_diff(CopyNumArray(df.copy(), {"sample_id": "s"}), tmp, "none", 2, None, False, None, case["par"], None, None,
                                     center=case["estimator"], drop_low=case["skip_low"])
                if diff:
                    bad("cli:call-center", diff)
            finally:
                shutil.rmtree(tmp, ignore_errors=True)
        return out

    # ---------------------------------------------------------------- sex
    from cnvlib import commands

    rows = build_sex(case)
    df = pd.DataFrame(rows)
    if not case["weights"]:
        df = df.drop(columns=["weight"])
    from vk import gen

    df = gen.relabel(df, gen.spec_for(case))
    cna = CopyNumArray(df.copy(), {"sample_id": "s", "filename": "s.cnr"})
    ctx = (f"sample {'female' if case['female'] else 'male'}, {'male' if case['male_ref'] else 'female'} reference, "
           f"sd {case['sd']}, nx {case['nx']}, ny {case['ny']}, autosomes {len(case['autos'])}x{case['per_auto']}, weights {case['weights']}, "
           f"par {case['par']} ({case['par_bins']} bins), seed {case['seed']}")
    if case["seed"] % 3 == 0:
        # history: the same array was first asked under the other reference assumption / without one
        cna.guess_xx(is_haploid_x_reference=not case["male_ref"], diploid_parx_genome=case["par"], verbose=False)
        cna.expect_flat_log2(None, case["par"])
    is_xx = cna.guess_xx(is_haploid_x_reference=case["male_ref"], diploid_parx_genome=case["par"], verbose=False)
    if is_xx is None or bool(is_xx) != case["female"]:
        bad("sex:guess_xx", f"guess_xx -> {is_xx!r}; {ctx}")
    tab = commands.do_sex([cna], case["male_ref"], case["par"])
    want = "Female" if case["female"] else "Male"
    if list(tab["sex"]) != [want]:
        bad("sex:do_sex", f"do_sex reports {list(tab['sex'])}; {ctx}")
    # shift_xx with the true sex stated
    sh = cna.shift_xx(case["male_ref"], case["female"])
    delta = sh.data["log2"].values - df["log2"].values
    xname = case["style"] + "X"
    isx = (df["chromosome"] == xname).values
    if case["female"] and case["male_ref"]:
        wantd = -1.0
    elif not case["female"] and not case["male_ref"]:
        wantd = 1.0
    else:
        wantd = 0.0
    if not np.allclose(delta[isx], wantd, atol=1e-12, rtol=0) or not np.all(delta[~isx] == 0):
        bad("sex:shift_xx", f"shift_xx moved X by {sorted(set(np.round(delta[isx], 9)))[:3]} (expected {wantd}) and other bins by "
                            f"{sorted(set(np.round(delta[~isx], 9)))[:3]}; {ctx}")
    if not df.reset_index(drop=True).equals(cna.data[df.columns].reset_index(drop=True)):
        bad("sex:input-modified", "guess_xx/do_sex/shift_xx changed the input table")
    if case["seed"] % 3 == 1:
        # container re-use: the same array object now holds the opposite-sex sample of the same cohort
        other = dict(case, female=not case["female"])
        df2 = pd.DataFrame(build_sex(other))
        keep = cna.data["log2"].values.copy()
        cna["log2"] = df2["log2"].values
        again = cna.guess_xx(is_haploid_x_reference=case["male_ref"], diploid_parx_genome=case["par"], verbose=False)
        if again is None or bool(again) == case["female"]:
            bad("sex:guess_xx-after-update", f"after the array's log2 values were replaced by a {'male' if case['female'] else 'female'} sample "
                                             f"guess_xx still returns {again!r}; {ctx}")
        cna["log2"] = keep
    # after the shift X (outside PAR when the sample/reference differ) sits at the autosomal level
    if not case["par"] or not case["par_bins"]:
        xm = float(np.median(sh.data["log2"].values[isx]))
        target_level = 0.0
        if abs(xm - target_level) > 0.25:
            bad("sex:shift_xx-level", f"median X after shift_xx is {xm!r}; {ctx}")
    # shift_xx inferring the sex itself
    sh2 = cna.shift_xx(case["male_ref"], diploid_parx_genome=case["par"])
    if not np.array_equal(sh2.data["log2"].values, sh.data["log2"].values):
        bad("sex:shift_xx-inferred", f"shift_xx with inferred sex differs from shift_xx with the true sex; {ctx}")
    flat = cna.expect_flat_log2(case["male_ref"], case["par"])
    isy = (df["chromosome"] == case["style"] + "Y").values
    exp = np.zeros(len(df))
    exp[isy] = -1.0
    if case["male_ref"]:
        for i, r in enumerate(rows):
            if isx[i] and not in_par("X", r["start"], r["end"], case["par"]):
                exp[i] = -1.0
    if not np.array_equal(np.asarray(flat, dtype=float), exp):
        k = int(np.nonzero(np.asarray(flat) != exp)[0][0])
        bad("sex:expect_flat", f"expect_flat_log2[{k}] = {flat[k]!r} for {rows[k]['chromosome']}:{rows[k]['start']}, expected {exp[k]!r}; {ctx}")
    # ---- command-line tier (a quarter of the sex cases): `cnvkit.py sex` on the written table = do_sex on the same file,
    # and the command's table states the planted sex
    from vk import gen

    if gen.pick(case, "cli", 4) == 0 and not out:
        import os
        import shutil
        import tempfile

        from vk import cli

        d = tempfile.mkdtemp(prefix="vk15.")
        try:
            diff = cli.sex_diff([cna], d, case["male_ref"], case["par"])
            if diff:
                bad("cli:sex", diff)
            else:
                lines = open(os.path.join(d, "x.cli.tsv")).read().splitlines()
                if len(lines) != 2 or lines[1].split("\t")[1] != want:
                    bad("cli:sex", f"cnvkit.py sex wrote {lines[:3]}, planted sex {want}; {ctx}")
        finally:
            shutil.rmtree(d, ignore_errors=True)
    return out
