#!/venv/bin/python
"""Sensitivity self-test (not a registered check): apply one-line mutants of the anchored
mechanisms to a scratch copy of cnvkit outside /repo and /verif, run the property's quick
check with VERIF_REPO pointing at it, expect exit 1.

usage: tools/mutants.py [PID ...] [--examples N] [--keep]
"""
import os, shutil, subprocess, sys, tempfile, time
HERE = os.path.dirname(os.path.dirname(os.path.abspath(__file__)))
REPO = os.environ.get("VERIF_REPO_SRC", "/repo")

MUTANTS = []  # (pid, name, file, old, new)

def m(pid, name, file, old, new):
    MUTANTS.append((pid, name, file, old, new))

exec(open(os.path.join(HERE, "tools", "mutant_defs.py")).read())

def main():
    args = [a for a in sys.argv[1:] if not a.startswith("--")]
    extra = []
    if "--examples" in sys.argv:
        extra = ["--examples", sys.argv[sys.argv.index("--examples") + 1]]
        args = [a for a in args if a != extra[1]]
    want = {a.upper() for a in args}
    rows = []
    for pid, name, file, old, new in MUTANTS:
        if want and pid not in want and name not in args:
            continue
        d = tempfile.mkdtemp(prefix="cnvmut.")
        try:
            for sub in ("cnvlib", "skgenome"):
                shutil.copytree(os.path.join(REPO, sub), os.path.join(d, sub),
                                ignore=shutil.ignore_patterns("__pycache__"))
            p = os.path.join(d, file)
            s = open(p).read()
            if s.count(old) != 1:
                rows.append((pid, name, f"SKIP: pattern occurs {s.count(old)}x"))
                print(*rows[-1], flush=True)
                continue
            open(p, "w").write(s.replace(old, new))
            t0 = time.time()
            env = dict(os.environ, VERIF_REPO=d, VERIF_EVIDENCE_DIR=os.path.join(d, "_ev"))
            r = subprocess.run([os.path.join(HERE, "check"), pid, "--no-shrink"] + extra, env=env,
                               capture_output=True, text=True)
            clauses = [l.strip()[:110] for l in r.stdout.splitlines() if l.strip().startswith("violated clause")]
            rows.append((pid, name, f"exit={r.returncode} {time.time() - t0:.0f}s " + (" | ".join(clauses[:2]) if clauses else r.stderr.strip()[-200:])))
        finally:
            shutil.rmtree(d, ignore_errors=True)
        print(*rows[-1], flush=True)
    killed = sum(1 for r in rows if r[2].startswith("exit=1"))
    print(f"\n{killed}/{len(rows)} mutants detected")

main()
