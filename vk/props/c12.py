"""C12 - target and antitarget bins partition exactly the space they should."""
import math
import os
import shutil
import tempfile

from hypothesis import strategies as st

from vk import models as M

ID = "C12"
LEVEL = "exploration"
RULE = (
    "Hypothesis draws bait tables on 1..3 contigs (canonical and non-canonical names in one naming style; 1..25 baits per "
    "case built from relation choices disjoint / abutting / overlapping / nested / duplicate, zero-width rows, multi-accession "
    "labels), contig lengths 20 000..400 000, access tables (0..6 regions per contig: abutting, overlapping, shorter than the "
    "two margins; extra untargeted canonical and non-canonical contigs) or none, avg_size 100..50 000, min_size None / 0 / "
    "1..avg, --split, short_names and an annotation BED on a subset. Oracle: run algebra on half-open intervals restated in the "
    "harness (union of non-empty baits; per-row shrunk access minus baits widened by 500 floored at 0; each run >= min cut "
    "into max(1, round(len/avg)) equal bins, .5 ties either way) compared bin for bin, plus the direct clauses (order, "
    "disjointness, inside S, size bounds, names, contigs). Non-trivial = nested or overlapping baits after widening, or an access "
    "region partly consumed by a margin, or an untargeted contig; distinct = distinct case JSON."
)
CLI_SHARE = 4  # one case in CLI_SHARE also goes through the command line (vk/cli.py)
QUICK = {"examples": 1200, "shards": 16, "budget_s": 300}
THOROUGH = {"examples": 32000, "shards": 16, "budget_s": 2400}
ASSUMPTIONS = [
    "bait tables are in tabio.read order (natural chromosome order, start, end); antitarget is given the output of target, as in the pipeline",
    "when access regions are given at least one targeted contig appears among them (otherwise cnvkit refuses with a chromosome-name mismatch error, which is not asserted)",
    "the default minimum size is avg/16 as the CLI documents; runs whose length lies between avg/16 and 2*int(avg/32) may be kept or dropped",
    "canonical / non-canonical ground truth is a fixed example table per category, not the package regex",
    "bins on untargeted non-canonical contigs are only forbidden when some targeted contig is canonical (the documented rule); in the name-length fallback nothing is asserted about them",
]

PAD = 500
TELOMERE = 150000
CANON = {"chr": ["chr1", "chr2", "chr10", "chrX"], "": ["1", "2", "10", "X"]}
NONCANON = {"chr": ["chrM", "chrUn_gl000220", "chr6_apd_hap1", "chr1_KI270762v1_alt"], "": ["MT", "GL000192.1_random", "HLA-A*01:01"]}
LABELS = ["BRCA1", "TP53", "mRNA|JX093079,ens|ENST00000342066,ref|SAMD11", "ens|ENST00000483767,mRNA|AF161376,ref|NOC2L",
          "mRNA|AF161376,ref|NOC2L", "-", "ref|SAMD11,ccds|CCDS3.1", "G1", "G2"]


def _order(style, name):
    """Input tables are in tabio.read order: the package's own chromosome sort key (a precondition, not an oracle)."""
    from skgenome.chromsort import sorter_chrom

    return sorter_chrom(name)


@st.composite
def strategy(draw):
    style = draw(st.sampled_from(["chr", "chr", ""]))
    canon, noncanon = CANON[style], NONCANON[style]
    ntgt = draw(st.integers(1, 3))
    kind = draw(st.sampled_from(["canon", "canon", "canon", "mixed", "noncanon"]))
    if kind == "canon":
        pool = canon
    elif kind == "noncanon":
        pool = noncanon
    else:
        pool = canon + noncanon
    tgt_chroms = draw(st.lists(st.sampled_from(pool), min_size=1, max_size=min(ntgt, len(pool)), unique=True))
    tgt_chroms.sort(key=lambda c: _order(style, c))
    use_access = draw(st.integers(0, 4)) > 0
    lengths = {}
    baits = []
    gid = 0
    for c in tgt_chroms:
        L = draw(st.sampled_from([20000, 60000, 160000, 200000, 400000] if use_access else [200000, 300000, 400000])) + draw(st.integers(0, 5000))
        lengths[c] = L
        unit = draw(st.sampled_from([1, 10, 100, 400]))
        n = draw(st.integers(1, 9))
        if use_access:
            pos = draw(st.one_of(st.integers(0, 1200), st.integers(0, L // 2), st.integers(140000, 170000))) % max(1, L - 2000)
        else:
            # without an access table the space starts at the guessed telomere end (150 000): put the baits beyond it
            pos = draw(st.one_of(st.integers(149000, 152000), st.integers(150600, 190000)))
        rows = []
        s = pos
        e = s + draw(st.integers(1, 30)) * unit
        rows.append([s, e])
        for _ in range(n - 1):
            ps, pe = rows[-1]
            rel = draw(st.sampled_from(["disjoint", "far", "abutting", "overlapping", "nested", "duplicate", "zero", "near"]))
            if rel == "disjoint":
                s = pe + draw(st.integers(1, 3000))
                e = s + draw(st.integers(1, 30)) * unit
            elif rel == "far":
                s = pe + draw(st.integers(3000, 60000))
                e = s + draw(st.integers(1, 30)) * unit
            elif rel == "near":
                s = pe + draw(st.sampled_from([999, 1000, 1001, 1002, 500, 2000]))
                e = s + draw(st.integers(1, 30)) * unit
            elif rel == "abutting":
                s = pe
                e = s + draw(st.integers(1, 30)) * unit
            elif rel == "overlapping" and pe > ps:
                s = draw(st.integers(ps, pe - 1))
                e = pe + draw(st.integers(1, 30)) * unit
            elif rel == "nested" and pe > ps:
                s = draw(st.integers(ps, pe - 1))
                e = draw(st.integers(s + 1, pe))
            elif rel == "zero":
                s = draw(st.integers(ps, pe + 2000))
                e = s
            else:
                s, e = ps, pe
            rows.append([s, e])
        rows = sorted([s, e] for s, e in rows if e <= L)
        if not any(e > s for s, e in rows):
            rows.append([min(1000, L - 200), min(1000, L - 200) + 120])
            rows.sort()
        for s, e in rows:
            baits.append([c, s, e, draw(st.sampled_from(LABELS + ["G%d" % (gid // 2)]))])
            gid += 1
    access = None
    if use_access:
        extra_c = draw(st.lists(st.sampled_from([c for c in canon if c not in tgt_chroms] or canon[:1]), max_size=2, unique=True))
        extra_n = draw(st.lists(st.sampled_from([c for c in noncanon if c not in tgt_chroms] or noncanon[:1]), max_size=2, unique=True))
        acc_chroms = sorted(set(tgt_chroms) | set(extra_c) | set(extra_n), key=lambda c: _order(style, c))
        if len(tgt_chroms) > 1 and draw(st.integers(0, 5)) == 0:
            # a targeted contig the access table does not list - any of them, so that the listed targeted contigs can be all
            # non-canonical while an unlisted one is canonical (seeded change C12q judged canonicality on the listed ones only)
            acc_chroms.remove(tgt_chroms[draw(st.integers(0, len(tgt_chroms) - 1))])
        access = []
        for c in acc_chroms:
            L = lengths.get(c) or draw(st.sampled_from([3000, 20000, 90000, 250000]))
            lengths.setdefault(c, L)
            n = draw(st.sampled_from([1, 1, 2, 3, 6, 0])) if c not in tgt_chroms or len(acc_chroms) > 1 else draw(st.integers(1, 4))
            pos = draw(st.sampled_from([0, 0, 1000, 10000]))
            for _ in range(n):
                if pos >= L:
                    break
                ln = draw(st.one_of(st.integers(1, 1200), st.integers(1000, 60000), st.just(L)))
                s, e = pos, min(L, pos + ln)
                here = [b for b in baits if b[0] == c and b[1] > s + 1200]
                if here and draw(st.integers(0, 2)) == 0:
                    # right edge of the region next to / inside a (widened) bait
                    b = here[draw(st.integers(0, len(here) - 1))]
                    e = min(L, b[1] + draw(st.sampled_from([-600, -500, -499, 0, 100])))
                if e > s:
                    access.append([c, s, e])
                # (regions may overlap their predecessor by more than the two margins, so that they still overlap after
                # each was shrunk: tiled access tables - seeded change C12o dropped short pieces before merging them)
                pos = e + draw(st.sampled_from([0, 0, 1, 700, 1000, 1001, 5000])) - draw(st.sampled_from([0, 0, 0, 300, 1500, 2500]))
                pos = max(pos, s)
        access.sort(key=lambda r: (_order(style, r[0]), r[1], r[2]))
        if not any(r[0] in tgt_chroms for r in access):
            c = tgt_chroms[0]
            access.append([c, 0, lengths[c]])
            access.sort(key=lambda r: (_order(style, r[0]), r[1], r[2]))
    avg = draw(st.one_of(st.integers(100, 2000), st.integers(100, 50000), st.sampled_from([1000, 5000, 20000, 150000])))
    mn = draw(st.one_of(st.none(), st.just(0), st.integers(1, max(1, (3 * avg) // 4 - 2)), st.integers(1, avg)))
    tavg = draw(st.one_of(st.integers(20, 3000), st.sampled_from([200 / 0.75, 100, 267])))
    if isinstance(tavg, int) and tavg % 2 == 0 and draw(st.integers(0, 2)) == 0:
        # a bait whose length is exactly 2.5 or 4.5 average bins: round() is to the even neighbour (2, 4), so "add a half and
        # truncate" gives one bin too many (seeded change C12n)
        c = tgt_chroms[0]
        s_ = max([b[2] for b in baits if b[0] == c] + [0]) + 3000
        e_ = s_ + draw(st.sampled_from([5, 9])) * tavg // 2
        if e_ <= lengths[c]:
            baits.append([c, s_, e_, "TIE"])
            baits.sort(key=lambda b: (_order(style, b[0]), b[1], b[2]))
    if access is not None and mn and draw(st.integers(0, 2)) == 0:
        # two accessible stretches on an untargeted canonical contig whose off-target runs measure exactly the minimum
        # size and one base less: the first must be binned, the second must not (a >= / > slip at the minimum)
        free = [c for c in canon if c not in {r[0] for r in access}]
        if free:
            access.append([free[0], 5000, 5000 + mn + 2 * PAD])
            access.append([free[0], 9000 + mn + 2 * PAD, 9000 + 2 * mn + 4 * PAD - 1])
            access.sort(key=lambda r: (_order(style, r[0]), r[1], r[2]))
    if access is not None and draw(st.integers(0, 4)) == 0:
        # a tiled stretch of accessible sequence on an untargeted canonical contig: 2200-base tiles every 1000 bases, each
        # 1200 bases after shrinking - shorter than most minimum sizes, yet together one long accessible run
        free = [c for c in canon if c not in {r[0] for r in access}]
        if free:
            base = draw(st.sampled_from([0, 40000]))
            for t in range(draw(st.integers(6, 30))):
                access.append([free[-1], base + 1000 * t, base + 1000 * t + 2200])
            access.sort(key=lambda r: (_order(style, r[0]), r[1], r[2]))
    if access is not None and style == "chr" and draw(st.integers(0, 11)) == 0:
        # every canonical targeted contig unlisted in the access table, the short-named non-canonical chrM targeted and
        # listed, and the untargeted canonical chr10 listed: some targeted contig is canonical, so chr10 must be binned
        # (seeded change C12q judged canonicality on the listed targeted contigs only and fell back to the name lengths)
        tset = {b[0] for b in baits if b[2] > b[1]}
        if "chr10" not in tset and any(c in canon for c in tset):
            access = [r for r in access if not (r[0] in canon and r[0] in tset)]
            if "chrM" not in tset:
                baits.append(["chrM", 2000, 2120, "MT-ND1"])
                baits.sort(key=lambda b: (_order(style, b[0]), b[1], b[2]))
            if not any(r[0] == "chrM" for r in access):
                access.append(["chrM", 0, 16571])
            if not any(r[0] == "chr10" for r in access):
                access.append(["chr10", 0, 90000])
            access.sort(key=lambda r: (_order(style, r[0]), r[1], r[2]))
    return {"style": style, "baits": baits, "access": access, "avg": avg, "min": mn, "tavg": tavg,
            "split": draw(st.booleans()), "short": draw(st.booleans()), "annotate": draw(st.integers(0, 3)) == 0,
            "anti_from_split": draw(st.booleans())}


# ------------------------------------------------------------------ model
def is_canon(style, name):
    return name in CANON[style]


def cut(run, avg):
    """-> list of acceptable bin lists for one run (two when len/avg sits on a .5 tie)."""
    s, e = run
    span = e - s
    q = span / avg
    cands = {max(1, int(math.floor(q + 0.5)))}
    if abs((q % 1.0) - 0.5) < 1e-9:
        cands.add(max(1, int(math.floor(q))))
        cands.add(max(1, int(math.ceil(q))))
    outs = []
    for n in sorted(cands):
        outs.append(n)
    return outs


def check_bins(run, bins, avg):
    """bins (sorted) must cover `run` exactly with an acceptable count and sizes within 1 base of one another."""
    s, e = run
    if not bins:
        return f"run {run} not covered"
    if bins[0][0] != s or bins[-1][1] != e:
        return f"run {run}: bins span {bins[0][0]}-{bins[-1][1]}"
    for (s1, e1), (s2, e2) in zip(bins, bins[1:]):
        if e1 != s2:
            return f"run {run}: bins {s1}-{e1} and {s2}-{e2} do not tile"
    if len(bins) not in cut(run, avg):
        return f"run {run} (length {e - s}, avg {avg}): {len(bins)} bins, expected {cut(run, avg)}"
    sizes = [b - a for a, b in bins]
    if min(sizes) <= 0 or max(sizes) - min(sizes) > 1:
        return f"run {run}: bin sizes {sorted(set(sizes))} are not equal within one base"
    return None


def by_chrom(rows):
    out = {}
    for r in rows:
        out.setdefault(r[0], []).append((int(r[1]), int(r[2])))
    return out


def anti_space(case, targets):
    """S per contig: per-row shrunk access minus widened targets; plus contigs wanted / forbidden."""
    style = case["style"]
    tby = by_chrom(targets)
    tchroms = set(tby)
    if case["access"]:
        aby = by_chrom(case["access"])
    else:
        aby = {c: [(TELOMERE, max(e for _s, e in rows))] for c, rows in tby.items()}
    S = {}
    for c, rows in aby.items():
        shrunk = [(s + PAD, e - PAD) for s, e in rows if e - PAD > s + PAD]
        wide = [(max(0, s - PAD), e + PAD) for s, e in tby.get(c, [])]
        S[c] = M.run_minus(M.covered(shrunk), M.covered(wide))
    wanted = {c for c in aby if c in tchroms or is_canon(style, c)}
    any_canon_target = any(is_canon(style, c) for c in tchroms)
    forbidden = {c for c in aby if c not in wanted} if any_canon_target else set()
    return S, wanted, forbidden, any_canon_target


def min_bounds(case):
    if case["min"]:
        return case["min"], case["min"]
    a, b = case["avg"] / 16.0, 2 * int(case["avg"] / 32.0)
    return min(a, b), max(a, b)


def nontrivial(case):
    nonempty = [b for b in case["baits"] if b[2] > b[1]]
    tby = by_chrom(nonempty)
    for c, rows in tby.items():
        wide = sorted((max(0, s - PAD), e + PAD) for s, e in rows)
        if any(b[0] < a[1] for a, b in zip(wide, wide[1:])):
            return True
    if case["access"]:
        if any(r[0] not in tby for r in case["access"]):
            return True
        for c, s, e in case["access"]:
            if 0 < e - s and any(max(s, bs - PAD) < min(e, be + PAD) for bs, be in tby.get(c, [])):
                return True
    return False


def classify(case):
    labs = []
    rel = set()
    for c, rows in by_chrom(case["baits"]).items():
        from vk.gen import table_relations
        rel |= table_relations([r for r in rows if r[1] > r[0]])
    labs += ["baits:" + r for r in sorted(rel)]
    if any(b[1] == b[2] for b in case["baits"]):
        labs.append("zero-width-bait")
    labs.append("access:given" if case["access"] else "access:none")
    if case["access"] and any(r[0] not in {b[0] for b in case["baits"]} for r in case["access"]):
        labs.append("untargeted-contig")
    style = case["style"]
    if not any(is_canon(style, b[0]) for b in case["baits"]):
        labs.append("no-canonical-target")
    if case["access"]:
        listed = {r[0] for r in case["access"]}
        tch = {b[0] for b in case["baits"] if b[2] > b[1]}
        if any(is_canon(style, c) for c in tch - listed) and tch & listed and not any(is_canon(style, c) for c in tch & listed):
            labs.append("canonical-target-unlisted,listed-targets-noncanonical")
            mx = max(len(c) for c in tch & listed)
            if any(is_canon(style, c) and len(c) > mx for c in listed - tch):
                labs.append("canonical-target-unlisted,longer-named-untargeted-canonical")
    if case["split"]:
        labs.append("split")
    if case["min"] and case["min"] > 0.75 * case["avg"] - 1:
        labs.append("min>0.75avg")
    return labs


def known(case, v):
    if v["clause"] == "antitarget:bin-below-min" and case["min"] and case["min"] > 0.75 * case["avg"] - 1:
        return "d19-antitarget-bin-below-min"
    if v["clause"] == "antitarget:contig-missing":
        style = case["style"]
        tch = {b[0] for b in case["baits"] if b[2] > b[1]}
        if not any(is_canon(style, c) for c in tch) and case["access"]:
            mx = max(len(c) for c in tch)
            missing = v.get("chrom")
            if missing is not None and is_canon(style, missing) and missing not in tch and len(missing) > mx:
                return "d10-contig-fallback-drops-canonical"
    return None


def check_case(case):
    import pandas as pd
    from cnvlib import antitarget, target
    from skgenome import GenomicArray as GA

    out = []

    def bad(clause, detail, **kw):
        v = {"clause": clause, "detail": f"{detail}; baits={case['baits'][:10]} avg={case['avg']} min={case['min']} tavg={case['tavg']}"}
        v.update(kw)
        out.append(v)

    bait_df = pd.DataFrame([tuple(b) for b in case["baits"]], columns=["chromosome", "start", "end", "gene"])
    from vk import gen

    bait_df = gen.relabel(bait_df, gen.spec_for(case))
    bait_arr = GA(bait_df.copy())
    nonempty = [b for b in case["baits"] if b[2] > b[1]]
    d = tempfile.mkdtemp(prefix="vk12.")
    try:
        # ------------------------------------------------ target
        ann = None
        if case["annotate"]:
            ann = os.path.join(d, "ann.bed")
            with open(ann, "w") as fh:
                for c in sorted({b[0] for b in case["baits"]}):
                    fh.write(f"{c}\t0\t5000\tANN1\n{c}\t4000\t100000\tANN2\n")
        plain = target.do_target(bait_arr, None, False, False, case["tavg"])
        got_plain = [[r.chromosome, int(r.start), int(r.end), r.gene] for r in plain.data.itertuples(index=False)]
        if got_plain != nonempty:
            bad("target:unchanged", f"without --split the output {got_plain[:8]} is not the non-empty baits {nonempty[:8]}")
        if not bait_arr.data.equals(bait_df):
            bad("target:input-modified", "do_target changed its input table")
        res = {}
        for split in (False, True):
            base = target.do_target(bait_arr, None, False, split, case["tavg"])
            res[split] = base
            coords = [(r.chromosome, int(r.start), int(r.end)) for r in base.data.itertuples(index=False)]
            for short, a in ((True, None), (False, ann), (True, ann)):
                if (short and not case["short"]) or (a and not case["annotate"]):
                    continue
                if not short and not a:
                    continue
                alt = target.do_target(bait_arr, a, short, split, case["tavg"])
                c2 = [(r.chromosome, int(r.start), int(r.end)) for r in alt.data.itertuples(index=False)]
                if c2 != coords:
                    bad("target:naming-changes-bins", f"short_names={short} annotate={bool(a)} split={split}: {len(c2)} bins vs {len(coords)}")
        sp = res[True]
        got = by_chrom([(r.chromosome, r.start, r.end) for r in sp.data.itertuples(index=False)])
        want_runs = {c: M.covered(rows) for c, rows in by_chrom(nonempty).items()}
        chrom_order = [c for c in dict.fromkeys(r.chromosome for r in sp.data.itertuples(index=False))]
        want_order = list(dict.fromkeys(b[0] for b in nonempty))
        if sorted(chrom_order) != sorted(want_order) or len(set(chrom_order)) != len(chrom_order):
            bad("target:order", f"chromosomes {chrom_order} vs baits {want_order} (each once, contiguous)")
        canon_seq = [c for c in chrom_order if is_canon(case["style"], c)]
        if canon_seq != sorted(canon_seq, key=M.natural_key):
            bad("target:order", f"canonical chromosomes out of genomic order: {canon_seq}")
        for c, runs in want_runs.items():
            bins = got.get(c, [])
            if bins != sorted(bins):
                bad("target:order", f"{c}: bins not sorted: {bins[:8]}")
            for run in runs:
                inside = [b for b in bins if b[0] >= run[0] and b[1] <= run[1]]
                msg = check_bins(run, inside, case["tavg"])
                if msg:
                    bad("target:split", f"{c}: {msg}")
                    break
            ntot = sum(1 for b in bins if any(b[0] >= r[0] and b[1] <= r[1] for r in runs))
            if ntot != len(bins):
                bad("target:split", f"{c}: {len(bins) - ntot} bins lie outside the union of the baits")
        for c in got:
            if c not in want_runs:
                bad("target:split", f"bins on {c}, which has no non-empty bait")

        # ------------------------------------------------ antitarget
        tarr = res[case["anti_from_split"]]
        if gen.pick(case, "anti-raw", 3) == 0:
            # the bait table itself, zero-width rows included: a zero-width target keeps its 500-base margin like any other
            # (seeded change C12m dropped zero-width rows while padding the targets)
            tarr = GA(bait_df.reset_index(drop=True))
        targets = [(r.chromosome, int(r.start), int(r.end)) for r in tarr.data.itertuples(index=False)]
        acc = None
        if case["access"] is not None:
            acc = GA(pd.DataFrame([tuple(r) for r in case["access"]], columns=["chromosome", "start", "end"])
                     if case["access"] else
                     pd.DataFrame({"chromosome": pd.Series([], dtype=str), "start": pd.Series([], dtype="int64"),
                                   "end": pd.Series([], dtype="int64")}))
        tbefore = tarr.data.copy()
        abefore = acc.data.copy() if acc is not None else None
        anti = antitarget.do_antitarget(tarr, acc, case["avg"], case["min"])
        if not tarr.data.equals(tbefore) or (acc is not None and not acc.data.equals(abefore)):
            bad("antitarget:input-modified", "do_antitarget changed an input table")
        rows = [(r.chromosome, int(r.start), int(r.end), r.gene) for r in anti.data.itertuples(index=False)]
        if any(g != "Antitarget" for *_x, g in rows):
            bad("antitarget:name", f"names {sorted({g for *_x, g in rows})}")
        S, wanted, forbidden, _anyc = anti_space(case, targets)
        gotb = by_chrom(rows)
        lo_min, hi_min = min_bounds(case)
        tby = by_chrom(targets)
        for c, bins in gotb.items():
            if bins != sorted(bins):
                bad("antitarget:order", f"{c}: bins not sorted")
            for (s1, e1), (s2, e2) in zip(sorted(bins), sorted(bins)[1:]):
                if s2 < e1:
                    bad("antitarget:overlap", f"{c}: {s1}-{e1} overlaps {s2}-{e2}")
                    break
            if c in forbidden:
                bad("antitarget:noncanonical-untargeted-binned", f"{c} is neither targeted nor canonical but has {len(bins)} bins")
                continue
            runs = S.get(c, [])
            for s, e in bins:
                if not any(s >= rs and e <= re_ for rs, re_ in runs):
                    near = [(ts, te) for ts, te in tby.get(c, []) if s < te + PAD and e > ts - PAD]
                    bad("antitarget:outside-space", f"{c}:{s}-{e} is not inside the shrunk accessible space minus widened targets "
                                                    f"(targets within 500 bases: {near[:3]}; space runs {runs[:6]})")
                    break
                if e - s > 1.5 * case["avg"] + 1:
                    bad("antitarget:bin-above-1.5avg", f"{c}:{s}-{e} has size {e - s} > 1.5 x {case['avg']}")
                    break
                if e - s < lo_min - 1:
                    bad("antitarget:bin-below-min", f"{c}:{s}-{e} has size {e - s} < minimum {lo_min}", chrom=c)
                    break
        for c, runs in S.items():
            if c not in wanted:
                continue
            bins = sorted(gotb.get(c, []))
            for run in runs:
                ln = run[1] - run[0]
                inside = [b for b in bins if b[0] >= run[0] and b[1] <= run[1]]
                if ln < lo_min:
                    if inside:
                        bad("antitarget:short-run-binned", f"{c}: run {run} shorter than the minimum {lo_min} has bins {inside[:3]}")
                    continue
                if ln < hi_min and not inside:
                    continue
                if not inside:
                    bad("antitarget:contig-missing" if not bins else "antitarget:run-missing",
                        f"{c}: off-target accessible run {run} (length {ln} >= minimum {hi_min}) has no bins; access={case['access']}", chrom=c)
                    break
                msg = check_bins(run, inside, case["avg"])
                if msg:
                    bad("antitarget:subdivide", f"{c}: {msg}")
                    break
        # ---- command-line tier (a quarter of the cases): `cnvkit.py target` / `antitarget` on written BED files = the
        # library calls on the tables those files were written from (the antitarget command is given the target command's
        # output, as in the pipeline), so the commands' reading of their inputs is compared as well
        if gen.pick(case, "cli", 4) == 0 and not out and nonempty:
            from vk import cli

            bpath = os.path.join(d, "baits.bed")
            with open(bpath, "w") as fh:
                for b in case["baits"]:
                    fh.write("\t".join(map(str, b)) + "\n")
            for split in (False, True):
                diff = cli.target_diff(bpath, d, bool(case["short"]), split, case["tavg"], ann, tag="t%d" % split,
                                       bait_arr=GA(bait_df.reset_index(drop=True)))
                if diff:
                    bad("cli:target", diff)
                    break
            if not out:
                apath = None
                if case["access"]:
                    apath = os.path.join(d, "access.bed")
                    with open(apath, "w") as fh:
                        for r in case["access"]:
                            fh.write("\t".join(map(str, r)) + "\n")
                t_api = target.do_target(GA(bait_df.reset_index(drop=True)), ann, bool(case["short"]), True, case["tavg"])
                diff = cli.antitarget_diff(os.path.join(d, "t1.cli.bed"), apath, d, case["avg"], case["min"], target_arr=t_api,
                                           access_arr=acc if apath else None)
                if diff:
                    bad("cli:antitarget", diff)
    finally:
        shutil.rmtree(d, ignore_errors=True)
    return out
