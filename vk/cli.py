"""Command-line tier: the documented commands must behave like the library calls the properties are stated for.

A property check hands a fraction of its cases (a pure function of the case JSON) to `*_diff` below: the inputs are
written to files, the command is run in-process through cnvkit's own argument parser (`cnvlib.commands.parse_args` +
`args.func`), and its output file is compared with what the library call gives on the *same files* with the arguments the
command's documentation maps its options to. The library result itself is what the property's oracle judges; this tier
adds the option plumbing of `commands.py` (defaults, option -> argument mapping, sample-sex handling, output writing),
which no API-level oracle can see. Both sides read the same written (6-significant-digit) inputs and are compared after
being written and read back, so no tolerance is involved.
"""
import contextlib
import io
import logging
import os


def run(argv):
    """Run `cnvkit.py <argv>` in-process, quietly."""
    from cnvlib import commands

    args = commands.parse_args([str(a) for a in argv])
    lvl = logging.getLogger().level
    logging.getLogger().setLevel(logging.ERROR)
    try:
        with contextlib.redirect_stdout(io.StringIO()):
            args.func(args)
    finally:
        logging.getLogger().setLevel(lvl)


def read_cna(path):
    from cnvlib import cmdutil

    return cmdutil.read_cna(path)


def table_diff(a, b):
    """First difference between two DataFrames (columns, dtypes kind, values), or None."""
    import numpy as np

    if list(a.columns) != list(b.columns):
        return f"columns {list(a.columns)} vs {list(b.columns)}"
    if len(a) != len(b):
        return f"{len(a)} rows vs {len(b)} rows"
    for col in a.columns:
        x, y = a[col].to_numpy(), b[col].to_numpy()
        if x.dtype.kind in "fc" or y.dtype.kind in "fc":
            try:
                xf, yf = x.astype(float), y.astype(float)
            except (TypeError, ValueError):
                return f"column {col}: {x[:5]!r} vs {y[:5]!r}"
            ok = (xf == yf) | (np.isnan(xf) & np.isnan(yf))
        else:
            ok = x == y
        if not np.all(ok):
            i = int(np.flatnonzero(~np.asarray(ok))[0])
            return f"column {col} row {i}: {x[i]!r} vs {y[i]!r}"
    return None


_SPELL = 2


def use_case(case):
    """Fix, as a pure function of the case, which of the accepted spellings of -x/--sample-sex the commands get
    (f / x / female / Female, m / y / male / Male)."""
    global _SPELL
    from vk import gen

    _SPELL = gen.pick(case, "sexword", 4)


def _sex_word(female):
    return (("f", "x", "female", "Female") if female else ("m", "y", "male", "Male"))[_SPELL]


def _sample_sex(arr, female, male_ref, par):
    """What the commands document for -x/--sample-sex: the stated sex if one is given, "otherwise guessed from X and Y
    coverage" (restated here rather than calling cnvkit's own helper, which is part of the plumbing under test)."""
    if female is not None:
        return bool(female)
    return arr.guess_xx(male_ref, par, verbose=False)


def call_diff(cnarr, tmpdir, method="threshold", ploidy=2, purity=None, male_ref=False, female=None, par=None,
              filters=None, thresholds=None, tag="c", vcf=None, sample_id=None, normal_id=None, min_variant_depth=20,
              zygosity_freq=None, center=None, center_at=None, drop_low=False):
    """`cnvkit.py call` against `call.do_call` on the same written table. -> None or a description of the difference.
    female=None leaves the sample sex to be inferred by both sides."""
    from cnvlib import call, cmdutil
    from skgenome import tabio

    src = os.path.join(tmpdir, f"{tag}.in.cns")
    tabio.write(cnarr, src)
    out_cli = os.path.join(tmpdir, f"{tag}.cli.cns")
    out_api = os.path.join(tmpdir, f"{tag}.api.cns")
    argv = ["call", src, "-m", method, "--ploidy", ploidy, "-o", out_cli]
    if purity is not None:
        argv += ["--purity", repr(float(purity))]
    if male_ref:
        argv.append("-y")
    if female is not None:
        argv += ["-x", _sex_word(female)]
    if par:
        argv += ["--diploid-parx-genome", par]
    for f in filters or []:
        argv += ["--filter", f]
    if thresholds is not None:
        argv.append("-t=" + ",".join(repr(float(t)) for t in thresholds))
    if center_at is not None:
        argv += ["--center-at", repr(float(center_at))]
    elif center:
        argv += ["--center", center]
    if drop_low:
        argv.append("--drop-low-coverage")
    if vcf:
        argv += ["-v", vcf, "--min-variant-depth", int(min_variant_depth)]
        if sample_id is not None:
            argv += ["-i", sample_id]
        if normal_id is not None:
            argv += ["-n", normal_id]
        if zygosity_freq is not None:
            argv += ["-z", repr(float(zygosity_freq))]
    try:
        run(argv)
        cli_err = None
    except Exception as exc:  # noqa: BLE001
        cli_err = f"{type(exc).__name__}: {exc}"
    arr = read_cna(src)
    try:
        # --center-at subtracts a constant from every log2; --center re-centres with the named estimator (skipping
        # low-coverage bins with --drop-low-coverage) before calling
        if center_at is not None:
            arr["log2"] -= float(center_at)
        elif center:
            arr.center_all(center, skip_low=drop_low, diploid_parx_genome=par)
        # what the command documents: sample sex is only consulted for purity < 1; given -> used, else inferred
        is_female = None
        if purity and purity < 1.0:
            is_female = _sample_sex(arr, female, male_ref, par)
        kw = {} if thresholds is None else {"thresholds": tuple(float(t) for t in thresholds)}
        varr = cmdutil.load_het_snps(vcf, sample_id, normal_id, int(min_variant_depth), zygosity_freq) if vcf else None
        res = call.do_call(arr, varr, method, ploidy, purity, male_ref, is_female, par, list(filters or []), **kw)
        tabio.write(res, out_api)
        api_err = None
    except Exception as exc:  # noqa: BLE001
        api_err = f"{type(exc).__name__}: {exc}"
    if cli_err or api_err:
        if bool(cli_err) != bool(api_err):
            return f"command {' '.join(map(str, argv[2:]))}: command -> {cli_err or 'ok'}, library call -> {api_err or 'ok'}"
        return None
    d = table_diff(read_cna(out_cli).data, read_cna(out_api).data)
    return None if d is None else f"command {' '.join(map(str, argv[2:]))}: output differs from do_call on the same file: {d}"


# ------------------------------------------------------------------ generic machinery for the other commands
def _both(argv, api, out_cli, out_api, compare):
    """Run the command and the library call; -> None or a description of how they differ."""
    try:
        run(argv)
        cli_err = None
    except BaseException as exc:  # noqa: BLE001 - argparse exits with SystemExit
        if isinstance(exc, KeyboardInterrupt):
            raise
        cli_err = f"{type(exc).__name__}: {exc}"
    ret = None
    try:
        ret = api()
        api_err = None
    except Exception as exc:  # noqa: BLE001
        api_err = f"{type(exc).__name__}: {exc}"
    shown = " ".join(str(a) if not str(a).startswith("/") else os.path.basename(str(a)) for a in argv)
    if cli_err or api_err:
        if bool(cli_err) != bool(api_err):
            return f"cnvkit.py {shown}: command -> {cli_err or 'ok'}, library call -> {api_err or 'ok'}"
        return None
    d = compare(out_cli, out_api)
    if d is None and isinstance(ret, tuple):
        # the written table, parsed independently of cnvkit's writers, against the DataFrame the library returned
        d = frame_vs_file(ret[0], out_cli, header=ret[1])
        if d is not None:
            d = "written table vs returned table: " + d
    return None if d is None else f"cnvkit.py {shown}: output differs from the library call on the same files: {d}"


def _cmp_cna(a, b):
    return table_diff(read_cna(a).data, read_cna(b).data)


def _cmp_text(a, b):
    ta, tb = open(a).read().splitlines(), open(b).read().splitlines()
    if ta == tb:
        return None
    for i, (x, y) in enumerate(zip(ta, tb)):
        if x != y:
            return f"line {i + 1}: {x[:160]!r} vs {y[:160]!r}"
    return f"{len(ta)} lines vs {len(tb)} lines"


def frame_vs_file(df, path, header=True):
    """The table a command wrote, parsed here cell by cell (tab-separated, optional header line), against the DataFrame
    the library returned: strings and integers exactly, floats to the 6 significant digits the commands document.
    -> None or the first difference. (Independent of cnvkit's own table writers.)"""
    import math

    lines = open(path).read().splitlines()
    if header:
        if not lines or lines[0].split("\t") != [str(c) for c in df.columns]:
            return f"header {lines[:1]} vs columns {list(df.columns)}"
        lines = lines[1:]
    if len(lines) != len(df):
        return f"{len(lines)} data lines vs {len(df)} rows"
    for i, (line, row) in enumerate(zip(lines, df.itertuples(index=False))):
        cells = line.split("\t")
        if len(cells) != len(row):
            return f"line {i + 1}: {len(cells)} cells vs {len(row)} columns"
        for cell, val in zip(cells, row):
            if isinstance(val, (bool,)) or val is None:
                ok = cell == str(val) or (val is None and cell == "")
            elif isinstance(val, float) or type(val).__name__.startswith("float"):
                if math.isnan(val):
                    ok = cell in ("", "nan", "NaN", "NA")
                else:
                    try:
                        ok = abs(float(cell) - float(val)) <= 6e-6 * abs(float(val)) + 1e-300
                    except ValueError:
                        ok = False
            elif isinstance(val, int) or type(val).__name__.startswith(("int", "uint")):
                ok = cell == str(int(val))
            else:
                ok = cell == str(val)
            if not ok:
                return f"line {i + 1}: cell {cell!r} vs value {val!r}"
    return None


def _reseed():
    import random

    import numpy as np

    random.seed(12345)
    np.random.seed(12345)


def segment_diff(cnarr, tmpdir, method, skip_low=False, skip_outliers=10, threshold=None, processes=1, par=None, tag="s"):
    """`cnvkit.py segment` against `do_segmentation` on the same written .cnr."""
    from cnvlib import segmentation
    from skgenome import tabio

    src = os.path.join(tmpdir, f"{tag}.in.cnr")
    tabio.write(cnarr, src)
    out_cli, out_api = os.path.join(tmpdir, f"{tag}.cli.cns"), os.path.join(tmpdir, f"{tag}.api.cns")
    argv = ["segment", src, "-m", method, "-o", out_cli, "--drop-outliers", repr(float(skip_outliers)), "-p", processes]
    if skip_low:
        argv.append("--drop-low-coverage")
    if threshold is not None:
        argv += ["-t", repr(float(threshold))]
    if par:
        argv += ["--diploid-parx-genome", par]

    def api():
        segs = segmentation.do_segmentation(read_cna(src), method, par, threshold, skip_low=skip_low,
                                            skip_outliers=float(skip_outliers), processes=1)
        tabio.write(segs, out_api)

    return _both(argv, api, out_cli, out_api, _cmp_cna)


STAT_FLAGS = {"mean": "--mean", "median": "--median", "mode": "--mode", "p_ttest": "--t-test", "stdev": "--stdev", "sem": "--sem",
              "mad": "--mad", "mse": "--mse", "iqr": "--iqr", "bivar": "--bivar", "ci": "--ci", "pi": "--pi"}


def segmetrics_diff(cnarr, segarr, tmpdir, loc, spread, interval, alpha, boots, smoothed, skip_low, tag="m"):
    from cnvlib import segmetrics
    from skgenome import tabio

    cnr, cns = os.path.join(tmpdir, f"{tag}.in.cnr"), os.path.join(tmpdir, f"{tag}.in.cns")
    tabio.write(cnarr, cnr)
    tabio.write(segarr, cns)
    out_cli, out_api = os.path.join(tmpdir, f"{tag}.cli.cns"), os.path.join(tmpdir, f"{tag}.api.cns")
    argv = ["segmetrics", cnr, "-s", cns, "-o", out_cli, "--alpha", repr(float(alpha)), "--bootstrap", boots]
    argv += [STAT_FLAGS[s] for s in list(loc) + list(spread) + list(interval)]
    if smoothed:
        argv.append("--smooth-bootstrap")
    if skip_low:
        argv.append("--drop-low-coverage")
    if not (loc or spread or interval):
        return None  # the command documents that it does nothing then

    def api():
        _reseed()
        res = segmetrics.do_segmetrics(read_cna(cnr), read_cna(cns), list(loc), list(spread), list(interval), float(alpha), boots,
                                       smoothed, skip_low=skip_low)
        tabio.write(res, out_api)

    _reseed()
    return _both(argv, api, out_cli, out_api, _cmp_cna)


def bintest_diff(cnarr, segarr, tmpdir, alpha, target_only, tag="b"):
    from cnvlib import bintest
    from skgenome import tabio

    cnr = os.path.join(tmpdir, f"{tag}.in.cnr")
    tabio.write(cnarr, cnr)
    argv = ["bintest", cnr, "-a", repr(float(alpha))]
    cns = None
    if segarr is not None:
        cns = os.path.join(tmpdir, f"{tag}.in.cns")
        tabio.write(segarr, cns)
        argv += ["-s", cns]
    if target_only:
        argv.append("-t")
    out_cli, out_api = os.path.join(tmpdir, f"{tag}.cli.cnr"), os.path.join(tmpdir, f"{tag}.api.cnr")
    argv += ["-o", out_cli]

    def api():
        res = bintest.do_bintest(read_cna(cnr), read_cna(cns) if cns else None, float(alpha), target_only)
        tabio.write(res, out_api)

    return _both(argv, api, out_cli, out_api, _cmp_cna)


def genemetrics_diff(cnarr, segarr, tmpdir, threshold, min_probes, skip_low, male_ref, female, par=None, tag="g"):
    from cnvlib import cmdutil, reports
    from skgenome import tabio

    cnr = os.path.join(tmpdir, f"{tag}.in.cnr")
    tabio.write(cnarr, cnr)
    out_cli, out_api = os.path.join(tmpdir, f"{tag}.cli.tsv"), os.path.join(tmpdir, f"{tag}.api.tsv")
    argv = ["genemetrics", cnr, "-t", repr(float(threshold)), "-m", min_probes, "-o", out_cli]
    cns = None
    if segarr is not None:
        cns = os.path.join(tmpdir, f"{tag}.in.cns")
        tabio.write(segarr, cns)
        argv += ["-s", cns]
    if skip_low:
        argv.append("--drop-low-coverage")
    if male_ref:
        argv.append("-y")
    if female is not None:
        argv += ["-x", _sex_word(female)]
    if par:
        argv += ["--diploid-parx-genome", par]

    def api():
        arr = read_cna(cnr)
        is_female = _sample_sex(arr, female, male_ref, par)
        tab = reports.do_genemetrics(arr, read_cna(cns) if cns else None, float(threshold), min_probes, skip_low, male_ref, is_female, par)
        cmdutil.write_dataframe(out_api, tab)
        return tab, True

    return _both(argv, api, out_cli, out_api, _cmp_text)


def breaks_diff(cnarr, segarr, tmpdir, min_probes, tag="k"):
    from cnvlib import cmdutil, reports
    from skgenome import tabio

    cnr, cns = os.path.join(tmpdir, f"{tag}.in.cnr"), os.path.join(tmpdir, f"{tag}.in.cns")
    tabio.write(cnarr, cnr)
    tabio.write(segarr, cns)
    out_cli, out_api = os.path.join(tmpdir, f"{tag}.cli.tsv"), os.path.join(tmpdir, f"{tag}.api.tsv")
    argv = ["breaks", cnr, cns, "-m", min_probes, "-o", out_cli]

    def api():
        tab = reports.do_breaks(read_cna(cnr), read_cna(cns), min_probes)
        cmdutil.write_dataframe(out_api, tab)
        return tab, True

    return _both(argv, api, out_cli, out_api, _cmp_text)


def sex_diff(cnarrs, tmpdir, male_ref, par=None, tag="x"):
    from cnvlib import cmdutil, commands
    from skgenome import tabio

    paths = []
    for i, a in enumerate(cnarrs):
        p = os.path.join(tmpdir, f"{tag}{i}.cnr")
        tabio.write(a, p)
        paths.append(p)
    out_cli, out_api = os.path.join(tmpdir, f"{tag}.cli.tsv"), os.path.join(tmpdir, f"{tag}.api.tsv")
    argv = ["sex"] + paths + ["-o", out_cli]
    if male_ref:
        argv.append("-y")
    if par:
        argv += ["--diploid-parx-genome", par]

    def api():
        tab = commands.do_sex([read_cna(p) for p in paths], male_ref, par)
        cmdutil.write_dataframe(out_api, tab, header=True)
        return tab, True

    return _both(argv, api, out_cli, out_api, _cmp_text)


def export_bed_diff(segarr, tmpdir, ploidy, male_ref, female, par, label_mode, show, tag="e"):
    """label_mode: 'sample' (file's sample id), 'genes' (--label-genes) or a literal label passed with -i."""
    import pandas as pd
    from cnvlib import cmdutil, export
    from skgenome import tabio

    cns = os.path.join(tmpdir, f"{tag}.in.cns")
    tabio.write(segarr, cns)
    out_cli, out_api = os.path.join(tmpdir, f"{tag}.cli.bed"), os.path.join(tmpdir, f"{tag}.api.bed")
    argv = ["export", "bed", cns, "--ploidy", ploidy, "--show", show, "-o", out_cli]
    if male_ref:
        argv.append("-y")
    if female is not None:
        argv += ["-x", _sex_word(female)]
    if par:
        argv += ["--diploid-parx-genome", par]
    if label_mode == "genes":
        argv.append("--label-genes")
    elif label_mode != "sample":
        argv += ["-i", label_mode]

    def api():
        arr = read_cna(cns)
        is_female = _sample_sex(arr, female, male_ref, par)
        label = None if label_mode == "genes" else arr.sample_id if label_mode == "sample" else label_mode
        tbl = export.export_bed(arr, ploidy, male_ref, par, is_female, label, show)
        cmdutil.write_dataframe(out_api, pd.concat([tbl]), header=False)
        return tbl, False

    return _both(argv, api, out_cli, out_api, _cmp_text)


def export_vcf_diff(segarr, tmpdir, ploidy, male_ref, female, par, sample_id=None, tag="v"):
    from cnvlib import cmdutil, export
    from skgenome import tabio

    cns = os.path.join(tmpdir, f"{tag}.in.cns")
    tabio.write(segarr, cns)
    out_cli, out_api = os.path.join(tmpdir, f"{tag}.cli.vcf"), os.path.join(tmpdir, f"{tag}.api.vcf")
    argv = ["export", "vcf", cns, "--ploidy", ploidy, "-o", out_cli]
    if male_ref:
        argv.append("-y")
    if female is not None:
        argv += ["-x", _sex_word(female)]
    if par:
        argv += ["--diploid-parx-genome", par]
    if sample_id:
        argv += ["-i", sample_id]

    def api():
        arr = read_cna(cns)
        is_female = _sample_sex(arr, female, male_ref, par)
        header, body = export.export_vcf(arr, ploidy, male_ref, par, is_female, sample_id, None)
        cmdutil.write_text(out_api, header, body)

    def cmp(a, b):
        # the header carries the date and the command line: compare from the column line on
        def body(p):
            lines = open(p).read().splitlines()
            k = next((i for i, ln in enumerate(lines) if ln.startswith("#CHROM")), 0)
            return [ln for ln in lines[:k] if not ln.startswith(("##fileDate", "##source", "##cmdline"))] + lines[k:]

        ta, tb = body(a), body(b)
        if ta == tb:
            return None
        for i, (x, y) in enumerate(zip(ta, tb)):
            if x != y:
                return f"line {i + 1}: {x[:160]!r} vs {y[:160]!r}"
        return f"{len(ta)} lines vs {len(tb)} lines"

    return _both(argv, api, out_cli, out_api, cmp)


def export_seg_diff(paths, tmpdir, enumerate_chroms, tag="q"):
    from cnvlib import cmdutil, export

    out_cli, out_api = os.path.join(tmpdir, f"{tag}.cli.seg"), os.path.join(tmpdir, f"{tag}.api.seg")
    argv = ["export", "seg"] + list(paths) + ["-o", out_cli]
    if enumerate_chroms:
        argv.append("--enumerate-chroms")

    def api():
        tab = export.export_seg(list(paths), chrom_ids=enumerate_chroms)
        cmdutil.write_dataframe(out_api, tab)
        return tab, True

    return _both(argv, api, out_cli, out_api, _cmp_text)


def _cmp_bed(a, b):
    return _cmp_text(a, b)


def target_diff(bait_path, tmpdir, short, split, avg, annotate=None, tag="t", bait_arr=None):
    """bait_arr: the table the BED file was written from (integer coordinates: nothing is lost in writing); when given,
    the library side works on it, so how the command *reads* its input is part of what is compared."""
    from cnvlib import target
    from skgenome import tabio

    out_cli, out_api = os.path.join(tmpdir, f"{tag}.cli.bed"), os.path.join(tmpdir, f"{tag}.api.bed")
    argv = ["target", bait_path, "-a", int(avg), "-o", out_cli]
    if short:
        argv.append("--short-names")
    if split:
        argv.append("--split")
    if annotate:
        argv += ["--annotate", annotate]

    def api():
        baits = bait_arr.copy() if bait_arr is not None else tabio.read_auto(bait_path)
        tabio.write(target.do_target(baits, annotate, short, split, int(avg)), out_api, "bed4")

    return _both(argv, api, out_cli, out_api, _cmp_bed)


def antitarget_diff(target_path, access_path, tmpdir, avg, min_size, tag="a", target_arr=None, access_arr=None):
    from cnvlib import antitarget
    from skgenome import tabio

    out_cli, out_api = os.path.join(tmpdir, f"{tag}.cli.bed"), os.path.join(tmpdir, f"{tag}.api.bed")
    argv = ["antitarget", target_path, "-a", int(avg), "-o", out_cli]
    if access_path:
        argv += ["-g", access_path]
    if min_size is not None:
        argv += ["-m", int(min_size)]

    def api():
        acc = None
        if access_path:
            acc = access_arr.copy() if access_arr is not None else tabio.read_auto(access_path)
        tgt = target_arr.copy() if target_arr is not None else tabio.read_auto(target_path)
        tabio.write(antitarget.do_antitarget(tgt, acc, int(avg), None if min_size is None else int(min_size)), out_api, "bed4")

    return _both(argv, api, out_cli, out_api, _cmp_bed)


def access_diff(fasta, excludes, tmpdir, min_gap, tag="c"):
    from cnvlib import access
    from skgenome import tabio

    excludes = list(excludes or [])
    out_cli, out_api = os.path.join(tmpdir, f"{tag}.cli.bed"), os.path.join(tmpdir, f"{tag}.api.bed")
    argv = ["access", fasta, "-s", int(min_gap), "-o", out_cli]
    for x in excludes:
        argv += ["-x", x]

    def api():
        tabio.write(access.do_access(fasta, list(excludes), int(min_gap)), out_api, "bed3")

    return _both(argv, api, out_cli, out_api, _cmp_bed)


def fix_diff(tpath, apath, rpath, tmpdir, do_gc, do_edge, do_rmask, par=None, tag="f"):
    from cnvlib import fix
    from skgenome import tabio

    out_cli, out_api = os.path.join(tmpdir, f"{tag}.cli.cnr"), os.path.join(tmpdir, f"{tag}.api.cnr")
    argv = ["fix", tpath, apath, rpath, "-o", out_cli]
    if not do_gc:
        argv.append("--no-gc")
    if not do_edge:
        argv.append("--no-edge")
    if not do_rmask:
        argv.append("--no-rmask")
    if par:
        argv += ["--diploid-parx-genome", par]

    def api():
        res = fix.do_fix(read_cna(tpath), read_cna(apath), read_cna(rpath), par, do_gc, do_edge, do_rmask)
        tabio.write(res, out_api)

    return _both(argv, api, out_cli, out_api, _cmp_cna)


def reference_diff(tfiles, afiles, fasta, tmpdir, male_ref, female, do_gc, do_edge, do_rmask, par=None, tag="r"):
    """Pooled reference: female = None (infer), True or False (stated for every sample)."""
    from cnvlib import reference
    from skgenome import tabio

    out_cli, out_api = os.path.join(tmpdir, f"{tag}.cli.cnn"), os.path.join(tmpdir, f"{tag}.api.cnn")
    argv = ["reference"] + list(tfiles) + list(afiles or []) + ["-o", out_cli]
    if fasta:
        argv += ["-f", fasta]
    if male_ref:
        argv.append("-y")
    if female is not None:
        argv += ["-x", _sex_word(female)]
    if not do_gc:
        argv.append("--no-gc")
    if not do_edge:
        argv.append("--no-edge")
    if not do_rmask:
        argv.append("--no-rmask")
    if par:
        argv += ["--diploid-parx-genome", par]

    def api():
        # the command sorts its file arguments into target and antitarget files by the word "antitarget" in the name
        names = list(tfiles) + list(afiles or [])
        t = [f for f in names if "antitarget" not in f]
        a = [f for f in names if "antitarget" in f]
        ref = reference.do_reference(t, a, fasta, male_ref, par, female, do_gc, do_edge, do_rmask)
        tabio.write(ref, out_api)

    return _both(argv, api, out_cli, out_api, _cmp_cna)


def coverage_diff(bam, bed, tmpdir, by_count, min_mapq, processes, tag="o"):
    from cnvlib import coverage
    from skgenome import tabio

    out_cli, out_api = os.path.join(tmpdir, f"{tag}.cli.cnn"), os.path.join(tmpdir, f"{tag}.api.cnn")
    argv = ["coverage", bam, bed, "-q", min_mapq, "-p", processes, "-o", out_cli]
    if by_count:
        argv.append("-c")

    def api():
        tabio.write(coverage.do_coverage(bed, bam, by_count, min_mapq, 1, None), out_api)

    return _both(argv, api, out_cli, out_api, _cmp_cna)


def reference_flat_diff(tbed, abed, fasta, tmpdir, male_ref, tag="l"):
    from cnvlib import reference
    from skgenome import tabio

    out_cli, out_api = os.path.join(tmpdir, f"{tag}.cli.cnn"), os.path.join(tmpdir, f"{tag}.api.cnn")
    argv = ["reference", "-t", tbed, "-o", out_cli]
    if abed:
        argv += ["-a", abed]
    if fasta:
        argv += ["-f", fasta]
    if male_ref:
        argv.append("-y")

    def api():
        tabio.write(reference.do_reference_flat(tbed, abed, fasta, male_ref), out_api)

    return _both(argv, api, out_cli, out_api, _cmp_cna)
