"""C08 - every format is read to 0-based half-open, sorted; write-then-read is lossless."""
import math
import os
import shutil
import tempfile

from hypothesis import strategies as st

from vk import models as M

ID = "C08"
LEVEL = "exploration"
RULE = (
    "Hypothesis draws abstract region tables: 0..40 rows in arbitrary input order on chromosomes named with "
    "letters, digits, underscores (and dots on a subset): plain or chr-prefixed 1..22, X, Y, M/MT plus "
    "alt/random/Un contigs; coordinates 0..3e8 and 2^31-5..2^32+1000 (VCF renderings skipped beyond 32 bits) "
    "incl. start 0, duplicate rows, gene labels over letters/digits/,.-_, a float column of arbitrary finite "
    "doubles (subnormal, 1e+-300, integers stored as floats, > 6 significant digits), weight, depth, integer "
    "probes; 1..4 samples for SEG. Read side: the harness renders the table in each format with its own writer "
    "following the published convention (BED3/4/6, tab, interval list with @ header, chr:start-end text, "
    "GFF3/GTF, SEG, VCF sites/simple/full, Picard per-target) and the reader must return the abstract 0-based "
    "half-open rows, sorted; read_auto must agree with the explicit reader. Round trip: tab (.cnn/.cnr/.cns via "
    "cnvlib.read), bed3, bed4, interval, text and export seg -> parse_seg must return the sorted table and a "
    "second write must be byte-identical. Non-trivial = unsorted input with two chromosomes whose lexical and "
    "natural order differ, or a row with start 0, or a float needing more than 6 digits; distinct = distinct case "
    "JSON."
)
QUICK = {"examples": 960, "shards": 16, "budget_s": 400}
THOROUGH = {"examples": 9600, "shards": 16, "budget_s": 3000}
FUZZ = {"seconds": 90, "jobs": 8, "instrument": ["skgenome.tabio", "skgenome.gary", "skgenome.chromsort", "skgenome.rangelabel"]}
ASSUMPTIONS = [
    "chromosome names and labels start with a letter or are plain integers without leading zeros, and are not pandas NA sentinels (NA, nan, null, None): pandas would re-type such a column on read",
    "order is asserted between rows of one chromosome (start, end), for contiguity of each chromosome's rows, and between chromosomes whose relative order the statement gives (integers numerically, then X, Y, then M/MT); not between exotic contigs",
    "rows with identical coordinates are compared as a multiset",
    "VCF renderings carry INFO END, the convention cnvkit's own VCF export uses for regions",
    "auto-detection is exercised on names over letters, digits and underscores only",
]

LEXNAT = [("2", "10"), ("9", "11"), ("3", "21")]


def _fin(x):
    return not (math.isnan(x) or math.isinf(x))


FLOATS = st.one_of(
    st.floats(allow_nan=False, allow_infinity=False, width=64),
    st.floats(-8, 8),
    st.integers(-30, 30).map(float),
    st.sampled_from([0.0, -0.0, 5e-324, 1e300, -1e300, 1e-300, 0.1234567891, -20.0, 1234567.0, 123456789.123, 0.30000000000000004]),
)
GENE_ALPHA = "ABCXYZabcxyz0123456789,.-_"


@st.composite
def gene_label(draw):
    if draw(st.integers(0, 5)) == 0:
        return "-"
    head = draw(st.sampled_from("ABCGTabcgt"))
    tail = draw(st.text(alphabet=GENE_ALPHA, max_size=10))
    g = head + tail
    if g.lower() in ("na", "nan", "null", "none", "n/a", "inf", "a", "true", "false"):
        g += "_1"
    return g


@st.composite
def strategy(draw):
    style = draw(st.sampled_from(["chr", "", "chr", "", "Chr", "CHR"]))  # the prefix is recognised whatever its case (TAIR10, rice: Chr1)
    dotted = draw(st.integers(0, 3)) == 0
    base = [style + str(k) for k in (1, 2, 3, 9, 10, 11, 21, 22)] + [style + "X", style + "Y", style + "M" if style else "MT"]
    exotic = [style + "Un_gl000220", style + "1_gl000191_random", style + "6_apd_hap1", "chr1_KI270762v1_alt" if style else "KI270762v1_alt", "scaffold_12",
              # several contigs of one family: names that agree up to a digit deep inside the accession
              style + "Un_KI270302v1", style + "Un_KI270304v1", style + "1_KI270706v1_random", style + "1_KI270707v1_random", "scaffold_13"]
    if dotted:
        exotic += ["GL000192.1", "GL000191.1", "KI270728.1", "chrUn.1" if style else "Un.2"]
    k = draw(st.integers(1, 5))
    chroms = draw(st.lists(st.sampled_from(base + exotic), min_size=k, max_size=k, unique=True))
    n = draw(st.one_of(st.integers(0, 6), st.integers(0, 40)))
    rows = []
    for _ in range(n):
        c = draw(st.sampled_from(chroms))
        if rows and draw(st.integers(0, 6)) == 0:
            c, s, e = rows[-1][:3]
        else:
            s = draw(st.one_of(st.just(0), st.integers(0, 1000), st.integers(0, 3 * 10 ** 8 - 1), st.integers(2 ** 31 - 5, 2 ** 32 + 1000)))
            e = s + draw(st.one_of(st.integers(1, 10), st.integers(1, 10 ** 6)))
            e = min(e, 3 * 10 ** 8) if s < 3 * 10 ** 8 else e
        rows.append([c, s, e, draw(gene_label())])
    floats = [draw(FLOATS) for _ in rows]
    return {
        "dotted": dotted, "rows": rows, "log2": floats,
        "weight": [draw(st.integers(0, 1000)) / 1000.0 for _ in rows],
        "depth": [abs(draw(FLOATS)) % 1e6 for _ in rows],
        "probes": [draw(st.integers(0, 5000)) for _ in rows],
        "nsamples": draw(st.integers(1, 4)),
        "ext": draw(st.sampled_from(["cnr", "cnn", "cns"])),
    }


# ------------------------------------------------------------------ renderers (harness side)
def sorted_rows(rows):
    """A valid reference order: only used for multiset comparison (order is checked separately)."""
    return sorted(rows, key=lambda r: (r[0], r[1], r[2], str(r[3:])))


def render(fmt, case):
    rows = case["rows"]
    L = []
    if fmt == "bed3":
        L = [f"{c}\t{s}\t{e}" for c, s, e, g in rows]
    elif fmt == "bed4":
        L = [f"{c}\t{s}\t{e}\t{g}" for c, s, e, g in rows]
    elif fmt == "bed":
        L = [f"{c}\t{s}\t{e}\t{g}\t0\t{'+-'[i % 2]}" for i, (c, s, e, g) in enumerate(rows)]
    elif fmt == "tab":
        L = ["chromosome\tstart\tend\tgene\tlog2"] + [f"{c}\t{s}\t{e}\t{g}\t{v!r}" for (c, s, e, g), v in zip(rows, case["log2"])]
    elif fmt == "interval":
        L = ["@HD\tVN:1.4\tSO:unsorted"] + [f"@SQ\tSN:{c}\tLN:9000000000" for c in dict.fromkeys(r[0] for r in rows)]
        L += [f"{c}\t{s + 1}\t{e}\t{'+-'[i % 2]}\t{g}" for i, (c, s, e, g) in enumerate(rows)]
    elif fmt == "text":
        L = [f"{c}:{s + 1}-{e}" + (f" {g}" if i % 2 else f"\t{g}") for i, (c, s, e, g) in enumerate(rows)]
    elif fmt == "gff":
        L = ["##gff-version 3"]
        for i, (c, s, e, g) in enumerate(rows):
            attr = f"ID=id{i};Name={g}" if i % 2 == 0 else f'gene_id "{g}"; transcript_id "t{i}";'
            L.append(f"{c}\tharness\texon\t{s + 1}\t{e}\t.\t{'+-.'[i % 3]}\t.\t{attr}")
    elif fmt == "seg":
        L = ["ID\tchrom\tloc.start\tloc.end\tnum.mark\tseg.mean"]
        L += [f"S1\t{c}\t{s + 1}\t{e}\t{p}\t{v!r}" for (c, s, e, g), v, p in zip(rows, case["log2"], case["probes"])]
    elif fmt in ("vcf-sites", "vcf-simple", "vcf"):
        L = ["##fileformat=VCFv4.2"]
        for c in dict.fromkeys(r[0] for r in rows):
            L.append(f"##contig=<ID={c},length=9000000001>")
        L += ['##INFO=<ID=END,Number=1,Type=Integer,Description="End">', '##INFO=<ID=SVTYPE,Number=1,Type=String,Description="t">',
              '##ALT=<ID=DEL,Description="Deletion">', '##FORMAT=<ID=GT,Number=1,Type=String,Description="Genotype">']
        L.append("#CHROM\tPOS\tID\tREF\tALT\tQUAL\tFILTER\tINFO\tFORMAT\tS1")
        L += [f"{c}\t{s + 1}\t.\tN\t<DEL>\t.\t.\tSVTYPE=DEL;END={e}\tGT\t0/1" for c, s, e, g in rows]
    elif fmt == "picardhs":
        L = ["chrom\tstart\tend\tlength\tname\t%gc\tmean_coverage\tnormalized_coverage"]
        L += [f"{c}\t{s + 1}\t{e}\t{e - s}\t{g}\t0.5\t{w!r}\t1.0" for (c, s, e, g), w in zip(rows, case["weight"])]
    else:
        raise ValueError(fmt)
    return "\n".join(L) + "\n" if L else ""


CARRIES_GENE = {"bed4", "bed", "tab", "interval", "text", "gff", "picardhs"}
READ_FORMATS = ["bed3", "bed4", "bed", "tab", "interval", "text", "gff", "seg", "vcf-sites", "vcf-simple", "vcf", "picardhs"]
AUTO_FORMATS = {"bed3": "bed", "bed4": "bed", "bed": "bed", "interval": "interval", "text": "text", "gff": "gff", "tab": "tab", "vcf": "vcf"}
SUFFIX = {"bed3": ".bed", "bed4": ".bed", "bed": ".bed", "tab": ".tsv", "interval": ".interval_list", "text": ".txt", "gff": ".gff3",
          "seg": ".seg", "vcf-sites": ".vcf", "vcf-simple": ".vcf", "vcf": ".vcf", "picardhs": ".hs.txt"}


def order_problems(got):
    """got: list of (chrom, start, end, ...) in output order -> message or None."""
    seen, prev = set(), None
    for r in got:
        if r[0] != prev:
            if r[0] in seen:
                return f"rows of {r[0]!r} are not contiguous"
            seen.add(r[0])
            prev = r[0]
    for a, b in zip(got, got[1:]):
        if a[0] == b[0] and (a[1], a[2]) > (b[1], b[2]):
            return f"{a[:3]} before {b[:3]}"
    stated = [c for c in dict.fromkeys(r[0] for r in got) if M.natural_key(c)[0] < 4]
    if stated != sorted(stated, key=M.natural_key):
        return f"chromosome order {stated} is not the natural order"
    return None


def lex_vs_natural(case):
    chroms = list(dict.fromkeys(r[0] for r in case["rows"]))
    stated = [c for c in chroms if M.natural_key(c)[0] < 4]
    return sorted(stated) != sorted(stated, key=M.natural_key)


def nontrivial(case):
    rows = case["rows"]
    if len(rows) < 2:
        return False
    unsorted = order_problems([tuple(r) for r in rows]) is not None
    return (unsorted and lex_vs_natural(case)) or any(r[1] == 0 for r in rows) or any(
        _fin(v) and float("%.6g" % v) != v for v in case["log2"])


def classify(case):
    labs = []
    rows = case["rows"]
    if not rows:
        labs.append("empty")
    if any(r[1] == 0 for r in rows):
        labs.append("start-0")
    if len(rows) >= 2 and order_problems([tuple(r) for r in rows]) is not None:
        labs.append("unsorted-input")
    if lex_vs_natural(case):
        labs.append("lexical!=natural")
    if len({tuple(r[:3]) for r in rows}) < len(rows):
        labs.append("duplicate-rows")
    if any(M.natural_key(r[0])[0] == 4 for r in rows):
        labs.append("exotic-contig")
    if case["dotted"]:
        labs.append("dotted-alphabet")
    if any(_fin(v) and float("%.6g" % v) != v for v in case["log2"]):
        labs.append("float>6-digits")
    return labs


def _negzero_in_integral_column(case):
    for col in ("log2", "depth", "weight"):
        vals = case[col]
        # integral as written: the writer keeps 6 significant digits, so 7.999999999999999 is written as "8"
        if vals and all(float("%.6g" % v).is_integer() for v in vals) and any(v == 0 and math.copysign(1.0, v) < 0 for v in vals):
            return True
    return False


def known(case, v):
    if v["clause"] in ("roundtrip:tab:bytes", "roundtrip:seg:bytes") and _negzero_in_integral_column(case):
        return "d21-negative-zero-integral-column"
    return None


def sig6(x):
    return float("%.6g" % x)


def check_case(case):
    import numpy as np
    import pandas as pd
    import cnvlib
    from cnvlib import cmdutil, export
    from cnvlib.cnary import CopyNumArray
    from skgenome import GenomicArray, tabio

    out = []

    def bad(clause, detail):
        out.append({"clause": clause, "detail": f"{detail}; input rows {case['rows'][:6]}"})

    rows = case["rows"]
    d = tempfile.mkdtemp(prefix="vk08.")
    try:
        # ------------------------------------------------ read side
        for fmt in READ_FORMATS:
            if fmt.startswith("vcf") and any(r[2] >= 2 ** 31 - 1 for r in rows):
                continue  # VCF Integer fields (INFO/END) are 32-bit: htslib sets larger values to missing
            if not rows and fmt in ("seg", "vcf-sites", "vcf-simple", "vcf", "tab", "gff", "picardhs", "interval", "text"):
                continue  # header-only / empty renderings of these formats are not in the quantifier
            path = os.path.join(d, "in_" + fmt.replace("-", "_") + SUFFIX[fmt])
            with open(path, "w") as fh:
                fh.write(render(fmt, case))
            try:
                garr = tabio.read(path, fmt)
            except Exception as exc:  # noqa: BLE001
                bad(f"read:{fmt}:error", f"{type(exc).__name__}: {exc}")
                continue
            cols = ["chromosome", "start", "end"] + (["gene"] if fmt in CARRIES_GENE else [])
            got = [tuple(x.item() if hasattr(x, "item") else x for x in r) for r in garr.data[cols].itertuples(index=False)]
            want = [tuple(r[:len(cols)]) for r in rows]
            if sorted_rows(got) != sorted_rows(want):
                miss = [r for r in sorted_rows(want) if r not in got][:3]
                extra = [r for r in sorted_rows(got) if r not in want][:3]
                bad(f"read:{fmt}:rows", f"{len(got)} rows read; expected but absent {miss}; unexpected {extra}")
                continue
            msg = order_problems(got)
            if msg:
                bad(f"read:{fmt}:order", msg)
            if fmt in AUTO_FORMATS and not case["dotted"] and rows:
                try:
                    auto = tabio.read_auto(path)
                    expl = tabio.read(path, AUTO_FORMATS[fmt])
                    same = list(auto.data.columns) == list(expl.data.columns) and len(auto) == len(expl) and all(
                        (auto.data[c].values == expl.data[c].values).all() or
                        (auto.data[c].dtype.kind == "f" and np.allclose(auto.data[c].values, expl.data[c].values, equal_nan=True))
                        for c in expl.data.columns)
                    if not same:
                        bad(f"auto:{fmt}", f"read_auto differs from read(fmt={AUTO_FORMATS[fmt]!r})")
                    acols = ["chromosome", "start", "end"]
                    agot = [tuple(x.item() if hasattr(x, "item") else x for x in r) for r in auto.data[acols].itertuples(index=False)]
                    if sorted_rows(agot) != sorted_rows([tuple(r[:3]) for r in rows]):
                        bad(f"auto:{fmt}", f"read_auto coordinates {agot[:4]} are not the abstract rows")
                except Exception as exc:  # noqa: BLE001
                    bad(f"auto:{fmt}:error", f"{type(exc).__name__}: {exc}")

        if not rows:
            return out
        # ------------------------------------------------ round trips
        df = pd.DataFrame({"chromosome": [r[0] for r in rows], "start": [r[1] for r in rows], "end": [r[2] for r in rows],
                           "gene": [r[3] for r in rows], "log2": case["log2"], "depth": case["depth"], "probes": case["probes"],
                           "weight": case["weight"]})
        ids = list(range(len(rows)))
        want_full = [(r[0], r[1], r[2], r[3], case["probes"][i], sig6(case["log2"][i]), sig6(case["depth"][i]), sig6(case["weight"][i]))
                     for i, r in enumerate(rows)]

        def full(garr):
            o = []
            for r in garr.data.itertuples(index=False):
                o.append((r.chromosome, int(r.start), int(r.end), r.gene, int(r.probes), float(r.log2), float(r.depth), float(r.weight)))
            return o

        def rows_equal(got, want, nfloat):
            """multiset equality: exact on the leading fields, 6 significant digits on the trailing nfloat floats"""
            if len(got) != len(want):
                return False
            k = len(want[0]) - nfloat if want else 0
            a = sorted(got, key=lambda r: (r[:k], r[k:]))
            b = sorted(want, key=lambda r: (r[:k], r[k:]))
            for x, y in zip(a, b):
                if x[:k] != y[:k]:
                    return False
                for u, v in zip(x[k:], y[k:]):
                    if not (u == v or sig6(u) == sig6(v) or abs(u - v) <= 1e-6 * max(abs(u), abs(v))):
                        return False
            return True

        # tab via cnvlib.read
        cna = CopyNumArray(df.copy(), {"sample_id": "rt"})
        p1 = os.path.join(d, "rt1." + case["ext"])
        p2 = os.path.join(d, "rt2." + case["ext"])
        tabio.write(cna, p1)
        back = cnvlib.read(p1)
        got = full(back)
        if not rows_equal(got, want_full, 3):
            bad("roundtrip:tab:rows", f"read(write(T)) = {got[:3]}, T = {sorted(want_full)[:3]}")
        else:
            msg = order_problems(got)
            if msg:
                bad("roundtrip:tab:order", msg)
        tabio.write(back, p2)
        p3 = os.path.join(d, "rt3." + case["ext"])
        tabio.write(cnvlib.read(p2), p3)
        if open(p2, "rb").read() != open(p3, "rb").read():
            bad("roundtrip:tab:bytes", "write(read(write(read(write(T))))) differs from write(read(write(T)))")
        # the first write is of unsorted T, so compare write(read(write(T))) with a direct write of sorted T
        srt = cna.copy()
        srt.sort()
        p4 = os.path.join(d, "rt4." + case["ext"])
        tabio.write(srt, p4)
        if open(p2, "rb").read() != open(p4, "rb").read():
            a, b = open(p2).read().splitlines(), open(p4).read().splitlines()
            k = next((i for i, (x, y) in enumerate(zip(a, b)) if x != y), min(len(a), len(b)))
            bad("roundtrip:tab:bytes", f"write(read(write(T))) differs from write(sorted T) at line {k}: {a[k:k + 1]} vs {b[k:k + 1]}")

        # bed3 / bed4 / interval / text
        ga = GenomicArray(df[["chromosome", "start", "end", "gene"]].copy(), {"sample_id": "rt"})
        for fmt in ("bed3", "bed4", "interval", "text"):
            q1 = os.path.join(d, "w1_" + fmt + SUFFIX[fmt])
            q2 = os.path.join(d, "w2_" + fmt + SUFFIX[fmt])
            try:
                tabio.write(ga, q1, fmt)
                back = tabio.read(q1, fmt)
                tabio.write(back, q2, fmt)
            except Exception as exc:  # noqa: BLE001
                bad(f"roundtrip:{fmt}:error", f"{type(exc).__name__}: {exc}")
                continue
            cols = ["chromosome", "start", "end"] + (["gene"] if fmt in ("bed4", "interval") else [])
            got = [tuple(x.item() if hasattr(x, "item") else x for x in r) for r in back.data[cols].itertuples(index=False)]
            want = [tuple(r[:len(cols)]) for r in rows]
            if sorted_rows(got) != sorted_rows(want):
                miss = [r for r in sorted_rows(want) if r not in got][:3]
                extra = [r for r in sorted_rows(got) if r not in want][:3]
                bad(f"roundtrip:{fmt}:rows", f"read(write(T)): expected but absent {miss}; unexpected {extra}")
                continue
            msg = order_problems(got)
            if msg:
                bad(f"roundtrip:{fmt}:order", msg)
            srt = ga.copy()
            srt.sort()
            q3 = os.path.join(d, "w3_" + fmt + SUFFIX[fmt])
            tabio.write(srt, q3, fmt)
            if open(q2, "rb").read() != open(q3, "rb").read():
                bad(f"roundtrip:{fmt}:bytes", "write(read(write(T))) differs from write(sorted T)")
            # auto-detection must also pick the right parser for the files cnvkit itself writes
            if not case["dotted"]:
                try:
                    auto = tabio.read_auto(q1)
                    agot = [tuple(x.item() if hasattr(x, "item") else x for x in r)
                            for r in auto.data[["chromosome", "start", "end"]].itertuples(index=False)]
                    if sorted_rows(agot) != sorted_rows([tuple(r[:3]) for r in rows]):
                        bad(f"auto:written-{fmt}", f"read_auto(write(T, {fmt!r})) = {agot[:4]}, explicit reader gives {got[:4]}")
                except Exception as exc:  # noqa: BLE001
                    bad(f"auto:written-{fmt}:error", f"{type(exc).__name__}: {exc}")
        # conversion chain: a BED4 file read by cnvkit (strand '.') written as an interval list and auto-detected
        if not case["dotted"]:
            try:
                b4 = os.path.join(d, "chain.bed")
                with open(b4, "w") as fh:
                    fh.write(render("bed4", case))
                mid = tabio.read(b4, "bed")
                il = os.path.join(d, "chain.interval_list")
                tabio.write(mid, il, "interval")
                auto = tabio.read_auto(il)
                agot = [tuple(x.item() if hasattr(x, "item") else x for x in r)
                        for r in auto.data[["chromosome", "start", "end", "gene"]].itertuples(index=False)]
                if sorted_rows(agot) != sorted_rows([tuple(r[:4]) for r in rows]):
                    miss = [r for r in sorted_rows([tuple(r[:4]) for r in rows]) if r not in agot][:3]
                    bad("auto:bed->interval", f"BED4 -> read -> write interval -> read_auto: expected but absent {miss}; got {agot[:3]}")
            except Exception as exc:  # noqa: BLE001
                bad("auto:bed->interval:error", f"{type(exc).__name__}: {exc}")

        # export seg -> parse_seg
        ns = case["nsamples"]
        names = ["Sa", "tumor_B", "N-3", "x4"][:ns]
        fnames, per = [], {}
        for k, name in enumerate(names):
            idx = [i for i in ids if i % ns == k] or ids[:1]
            sub = CopyNumArray(df.iloc[idx].copy(), {"sample_id": name})
            fn = os.path.join(d, name + ".cns")
            tabio.write(sub, fn)
            fnames.append(fn)
            per[name] = [(rows[i][0], rows[i][1], rows[i][2], case["probes"][i], sig6(case["log2"][i])) for i in idx]
        s1 = os.path.join(d, "out1.seg")
        cmdutil.write_dataframe(s1, export.export_seg(fnames, chrom_ids=False))
        parsed = list(tabio.seg.parse_seg(s1))
        if [sid for sid, _ in parsed] != names:
            bad("roundtrip:seg:samples", f"sample IDs {[sid for sid, _ in parsed]} vs {names}")
        else:
            d2 = os.path.join(d, "again")
            os.mkdir(d2)
            fn2 = []
            for sid, frame in parsed:
                got = [(r.chromosome, int(r.start), int(r.end), int(r.probes), float(r.log2)) for r in frame.itertuples(index=False)]
                if not rows_equal(got, per[sid], 1):
                    bad("roundtrip:seg:rows", f"sample {sid}: import-seg(export seg) = {got[:3]}, written {sorted(per[sid])[:3]}")
                    break
                msg = order_problems(got)
                if msg:
                    bad("roundtrip:seg:order", f"sample {sid}: {msg}")
                fn = os.path.join(d2, sid + ".cns")
                tabio.write(CopyNumArray(frame.copy(), {"sample_id": sid}), fn)
                fn2.append(fn)
            else:
                s2 = os.path.join(d, "out2.seg")
                cmdutil.write_dataframe(s2, export.export_seg(fn2, chrom_ids=False))
                if open(s1, "rb").read() != open(s2, "rb").read():
                    a, b = open(s1).read().splitlines(), open(s2).read().splitlines()
                    k = next((i for i, (x, y) in enumerate(zip(a, b)) if x != y), min(len(a), len(b)))
                    bad("roundtrip:seg:bytes", f"second export differs at line {k}: {a[k:k + 1]} vs {b[k:k + 1]}")
    finally:
        shutil.rmtree(d, ignore_errors=True)
    return out
