#!/bin/bash
# tools/seedcheck.sh PID TAG [extra check ids...] : confirm a sub-agent's seeded change in a scratch worktree and run our checks on it.
# Writes /verif/seeded/<PID><TAG>/{patch.diff,demo.py,notes.md,meta.json}. The scratch worktree is removed afterwards.
pid="$1"; tag="$2"; shift 2
checks="${@:-$pid}"
src="/tmp/seed/${pid}${tag}-out"
wt="/tmp/seedv/${pid}${tag}"
here="$(cd "$(dirname "$0")/.." && pwd)"
mkdir -p /tmp/seedv
git -C /repo worktree remove --force "$wt" >/dev/null 2>&1
git -C /repo worktree add --detach "$wt" HEAD >/dev/null 2>&1 || { echo "cannot create worktree"; exit 2; }
demo="$src/demo.py"
sed "s#/tmp/seed/${pid}${tag}#${wt}#g" "$demo" > "$wt/_demo.py"
run_demo() { (cd "$wt" && PYTHONPATH="$wt" timeout 900 /venv/bin/python "$wt/_demo.py" >"$wt/_demo.$1.log" 2>&1; echo $?); }
d0=$(run_demo clean)
if ! git -C "$wt" apply "$src/patch.diff"; then echo "$pid$tag: patch does not apply"; git -C /repo worktree remove --force "$wt"; exit 2; fi
d1=$(run_demo patched)
tests=$("$here/tools/baseline.sh" "$wt" | head -1)
res=""
for c in $checks; do
  out=$(cd "$here" && VERIF_REPO="$wt" VERIF_EVIDENCE_DIR="/tmp/seedv/ev_${pid}${tag}" ./check "$c" --tier quick --no-shrink 2>&1)
  rc=$?
  clauses=$(echo "$out" | grep "violated clause" | sed 's/^ *violated clause //' | cut -c1-160 | head -4 | tr '\n' '|')
  res="$res $c:exit=$rc [$clauses]"
done
mkdir -p "$here/seeded/${pid}${tag}"
cp "$src/patch.diff" "$here/seeded/${pid}${tag}/patch.diff"
cp "$src/demo.py" "$here/seeded/${pid}${tag}/demo.py"
[ -f "$src/notes.md" ] && cp "$src/notes.md" "$here/seeded/${pid}${tag}/notes.md"
echo "$pid$tag demo_clean=$d0 demo_patched=$d1 tests: $tests | checks:$res"
echo "$pid$tag demo_clean=$d0 demo_patched=$d1 tests: $tests | checks:$res" > "$here/seeded/${pid}${tag}/confirm.txt"
git -C /repo worktree remove --force "$wt" >/dev/null 2>&1
rm -rf "/tmp/seedv/ev_${pid}${tag}"
