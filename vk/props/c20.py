"""C20 - exports state exactly the calls they were given."""
import math
import os
import shutil
import tempfile

from hypothesis import strategies as st

from vk.props.c01 import CLASSES, place, ref_exp

ID = "C20"
LEVEL = "exploration"
RULE = (
    "Hypothesis draws (a) segment tables with or without a cn column over autosome/X/Y/PAR rows (segments "
    "starting at 0 included), ploidy 1..6, sample sex x reference sex x naming x PAR genome, label mode, and "
    "checks export_bed for all three --show modes and export_vcf (body parsed back by the harness); (b) 1..5 "
    ".cns/.cnr files written to a temp directory (shared or mismatching bins, duplicate sample IDs) for export "
    "seg (names kept or enumerated), merge_samples + jtv/cdt and nexus-basic. The shared bins of (b) sit at 0, "
    "2.4e8 or beyond 2^31. Oracle: copy number = given cn else nearest integer to r*2^log2, expected copies x and "
    "r restated from the statement (shared with C01), records re-derived row by row. Non-trivial = a table with a "
    "loss, a gain and a neutral segment and a sex-chromosome row (a), or >= 2 samples (b); distinct = distinct "
    "case JSON."
)
CLI_SHARE = 4  # one case in CLI_SHARE also goes through the command line (vk/cli.py)
QUICK = {"examples": 3200, "shards": 16, "budget_s": 300}
THOROUGH = {"examples": 24000, "shards": 16, "budget_s": 2400}
ASSUMPTIONS = [
    "probes is an integer column, as every cnvkit writer produces (the VCF writer skips rows whose probes is not a digit string)",
    "tables without a cn column hold no PAR-region rows where the BED path (no PAR option in r) and the VCF path (PAR-aware r) would disagree on r: PAR-Y never, PAR-X only under a female reference",
    "r*2^log2 within 1e-6 of a half-integer accepts either neighbouring cn",
    "export seg with enumeration: the mapping is the first sample's chromosomes in first-appearance order, applied to every sample",
]


@st.composite
def seg_rows(draw, ploidy, male_ref, par, with_cn):
    n = draw(st.integers(1, 12))
    rows = []
    for _ in range(n):
        cls = draw(st.sampled_from(CLASSES))
        if not with_cn and par is not None:
            if cls in ("PAR1Y", "PAR2Y") or (cls in ("PAR1X", "PAR2X") and male_ref):
                cls = "auto"
        m = draw(st.integers(0, 9))
        jitter = draw(st.sampled_from([0.0, 0.1, -0.1, 0.3]))
        row = {"cls": cls, "m": m, "jitter": jitter, "probes": draw(st.integers(1, 300)),
               "gene": draw(st.sampled_from(["TP53", "-", "A,B", "MYC"])), "len": draw(st.integers(1, 90))}
        if with_cn:
            row["cn"] = draw(st.integers(0, 9))
        rows.append(row)
    return rows


@st.composite
def strategy(draw):
    kind = draw(st.sampled_from(["bedvcf", "bedvcf", "multi"]))
    if kind == "bedvcf":
        ploidy = draw(st.integers(1, 6))
        male_ref = draw(st.booleans())
        par = draw(st.sampled_from([None, None, "grch37", "grch38"]))
        with_cn = draw(st.booleans())
        return {"kind": kind, "ploidy": ploidy, "male_ref": male_ref, "female": draw(st.booleans()),
                "chr": draw(st.booleans()), "par": par, "with_cn": with_cn, "start0": draw(st.booleans()),
                "label": draw(st.sampled_from(["sample", "genes", "custom"])),
                "rows": draw(seg_rows(ploidy, male_ref, par, with_cn))}
    ns = draw(st.integers(1, 5))
    nb = draw(st.integers(1, 8))
    bins = []
    pos = draw(st.sampled_from([0, 0, 100]))
    # both naming styles; panels whose autosomes are not a contiguous 1..n (enumeration must go by rank, not by name)
    chroms = draw(st.sampled_from([["chr1", "chr2", "chrX"], ["chr1", "chr2", "chrX"], ["1", "2", "X"], ["1", "2", "4", "X"],
                                   ["2", "3", "X", "Y"], ["chr3", "chr7", "chrY"]]))
    ci = 0
    for _ in range(nb):
        if draw(st.integers(0, 3)) == 0 and ci < len(chroms) - 1:
            ci += 1
            pos = draw(st.sampled_from([0, 50]))
        ln = draw(st.integers(1, 500))
        bins.append([chroms[ci], pos, pos + ln, draw(st.sampled_from(["G1", "G2", "-", "Antitarget"]))])
        pos += ln + draw(st.sampled_from([0, 10]))
    samples = []
    for i in range(ns):
        samples.append({"id": "S%d" % i, "log2": [draw(st.integers(-2000, 2000)) / 1000.0 for _ in range(nb)],
                        "probes": [draw(st.integers(1, 99)) for _ in range(nb)]})
    fault = draw(st.sampled_from(["none", "none", "none", "mismatch-coord", "mismatch-gene", "mismatch-len", "dup-id"]))
    if ns == 1:
        fault = "none"
    return {"kind": kind, "bins": bins, "samples": samples, "fault": fault, "enumerate": draw(st.booleans()),
            "fault_at": draw(st.integers(1, max(1, ns - 1)))}


def _cn_of(case, row):
    """(set of acceptable cn, r_bed, r_vcf-consistent)"""
    if case["with_cn"]:
        return {row["cn"]}
    r, _x = ref_exp(row["cls"], case["ploidy"], case["male_ref"], case["female"], None)
    t = r * 2.0 ** _log2(case, row)
    f = t - math.floor(t)
    if abs(f - 0.5) < 1e-6:
        return {int(math.floor(t)), int(math.floor(t)) + 1}
    return {int(math.floor(t + 0.5))}


def _log2(case, row):
    r, _x = ref_exp(row["cls"], case["ploidy"], case["male_ref"], case["female"], None)
    base = max(row["m"], 0.05) / max(r, 1)
    return math.log2(base) + row["jitter"]


def _expected(case, row):
    return ref_exp(row["cls"], case["ploidy"], case["male_ref"], case["female"], case["par"])[1]


def nontrivial(case):
    if case["kind"] == "multi":
        return len(case["samples"]) >= 2
    kinds = set()
    sexrow = False
    for row in case["rows"]:
        cns = _cn_of(case, row)
        x = _expected(case, row)
        c = min(cns)
        kinds.add("loss" if c < x else "gain" if c > x else "neutral")
        sexrow = sexrow or row["cls"] != "auto"
    return kinds >= {"loss", "gain", "neutral"} and sexrow


def cn_as_float(case):
    """a third of the cn-carrying tables hold their cn as float64 (a pure function of the case)"""
    import json
    import zlib

    return zlib.crc32(("cnf" + json.dumps(case, sort_keys=True, default=str)).encode()) % 3 == 0


def classify(case):
    if case["kind"] == "multi":
        return ["multi", "fault:" + case["fault"], "n=%d" % len(case["samples"])]
    return ["bedvcf", ("cn-float" if cn_as_float(case) else "cn") if case["with_cn"] else "nocn", "par:" + str(case["par"]), "label:" + case["label"],
            "ploidy:%d" % case["ploidy"]]


def known(case, v):
    return None


def _build_segments(case):
    import pandas as pd
    from cnvlib.cnary import CopyNumArray

    recs = []
    counters = {}
    rows = [dict(r) for r in case["rows"]]
    if not any(r["cls"] == "auto" for r in rows):
        rows.insert(0, {"cls": "auto", "m": case["ploidy"], "jitter": 0.0, "probes": 7, "gene": "LEAD", "len": 10,
                        **({"cn": case["ploidy"]} if case["with_cn"] else {})})
    for row in rows:
        k = counters.get(row["cls"], 0)
        counters[row["cls"]] = k + 1
        chrom, s, e = place(row["cls"], case["par"], case["chr"], k)
        e = min(e, s + row["len"])
        if row["cls"] == "auto" and k == 0 and case["start0"]:
            s, e = 0, min(e, 900)
        rec = {"chromosome": chrom, "start": s, "end": e, "gene": row["gene"], "log2": _log2(case, row),
               "probes": row["probes"], "weight": 1.0}
        if case["with_cn"]:
            rec["cn"] = row["cn"]
        recs.append((rec, row))
    order = {"1": 0, "X": 1, "Y": 2}
    recs.sort(key=lambda t: (order[t[0]["chromosome"].replace("chr", "")], t[0]["start"], t[0]["end"]))
    df = pd.DataFrame([r for r, _ in recs])
    from vk import gen

    if case["with_cn"] and cn_as_float(case):
        df["cn"] = df["cn"].astype(float)  # what `call --filter cn` leaves: integer-valued floats
    gen.relabel(df, gen.spec_for(case))
    return CopyNumArray(df, {"sample_id": "SAMPLE"}), recs


def check_case(case):
    if case["kind"] == "multi":
        return _check_multi(case)
    from cnvlib import export

    out = []

    def bad(clause, detail):
        out.append({"clause": clause, "detail": f"{detail}; config={ {k: case[k] for k in ('ploidy', 'male_ref', 'female', 'chr', 'par', 'with_cn')} }"})

    segarr, recs = _build_segments(case)
    before = segarr.data.copy()
    label = {"sample": "SAMPLE", "genes": None, "custom": "my label"}[case["label"]]
    info = []
    for rec, row in recs:
        info.append((rec, _cn_of(case, row), _expected(case, row)))
    # ---- BED
    for show in ("all", "ploidy", "variant"):
        tbl = export.export_bed(segarr, case["ploidy"], case["male_ref"], case["par"], case["female"], label, show)
        got = [(r[0], int(r[1]), int(r[2]), r[3], r[4]) for r in tbl.itertuples(index=False)]
        gi = 0
        ok = True
        for rec, cns, x in info:
            ref = case["ploidy"] if show == "ploidy" else x
            must_show = show == "all" or all(c != ref for c in cns)
            may_show = show == "all" or any(c != ref for c in cns)
            lab = rec["gene"] if label is None else label
            here = gi < len(got) and got[gi][:4] == (rec["chromosome"], rec["start"], rec["end"], lab)
            if here and may_show and got[gi][4] in cns and float(got[gi][4]) == int(got[gi][4]):
                gi += 1
            elif must_show:
                ok = False
                bad(f"bed:{show}", f"segment {(rec['chromosome'], rec['start'], rec['end'])} cn in {sorted(cns)} expected-copies {x}: "
                    f"missing or wrong in output (next output row: {got[gi] if gi < len(got) else None})")
                break
        if ok and gi != len(got):
            bad(f"bed:{show}", f"unexpected extra row {got[gi]}")
    # ---- VCF
    if case["with_cn"] or True:
        header, body = export.export_vcf(segarr, case["ploidy"], case["male_ref"], case["par"], case["female"])
        lines = [ln for ln in body.splitlines() if ln.strip()]
        cols = lines[0].split("\t")
        if cols[:9] != ["#CHROM", "POS", "ID", "REF", "ALT", "QUAL", "FILTER", "INFO", "FORMAT"] or cols[9] != "SAMPLE":
            bad("vcf:header", f"column line {cols}")
        recs_out = [ln.split("\t") for ln in lines[1:]]
        # the text must also be a VCF an independent parser (htslib through pysam) accepts, record for record
        if recs_out:
            import pysam
            import tempfile as _tf

            with _tf.NamedTemporaryFile("w", suffix=".vcf", delete=False) as fh:
                fh.write(header + ("" if header.endswith("\n") else "\n") + body)
                vpath = fh.name
            try:
                verb = pysam.set_verbosity(0)
                try:
                    with pysam.VariantFile(vpath) as vf:
                        parsed = [(r.chrom, r.pos, r.stop) for r in vf]
                finally:
                    pysam.set_verbosity(verb)
                if len(parsed) != len(recs_out):
                    bad("vcf:parse", f"htslib reads {len(parsed)} records, the body has {len(recs_out)}")
                else:
                    for (c_, pos_, _stop), rec_ in zip(parsed, recs_out):
                        if (c_, str(pos_)) != (rec_[0], rec_[1]):
                            bad("vcf:parse", f"htslib reads {c_}:{pos_} for the line {rec_[:2]}")
                            break
            except (OSError, ValueError) as exc:
                bad("vcf:parse", f"htslib cannot parse the exported VCF: {exc}; first record {recs_out[0]}")
            finally:
                os.unlink(vpath)
        gi = 0
        ok = True
        for rec, cns, x in info:
            # the VCF path derives cn with the PAR-aware reference; cases where that differs are excluded by construction
            must = all(c != x for c in cns)
            may = any(c != x for c in cns)
            if gi < len(recs_out) and may:
                f = recs_out[gi]
                pos_ok = f[0] == rec["chromosome"] and int(f[1]) == (rec["start"] if rec["start"] != 0 else 1)
                inf = dict(kv.split("=", 1) for kv in f[7].split(";") if "=" in kv)
                if pos_ok and int(inf.get("END", -1)) == rec["end"]:
                    gi += 1
                    span = rec["end"] - rec["start"]
                    fmt_keys = f[8].split(":")
                    vals = f[9].split(":")
                    cn_here = [c for c in cns if c != x]
                    is_loss = [c < x for c in cn_here]
                    svt = inf.get("SVTYPE")
                    if svt not in ("DEL", "DUP") or f[4] != f"<{svt}>":
                        bad("vcf:svtype", f"record {f[:5]} INFO {f[7]}")
                    elif (svt == "DEL") not in is_loss:
                        bad("vcf:svtype", f"segment cn {sorted(cns)} vs expected {x}: SVTYPE={svt}")
                    elif int(inf["SVLEN"]) != (-span if svt == "DEL" else span):
                        bad("vcf:svlen", f"segment {(rec['start'], rec['end'])} {svt}: SVLEN={inf['SVLEN']}")
                    if len(fmt_keys) != len(vals):
                        bad("vcf:format-arity", f"FORMAT {f[8]} vs sample field {f[9]}")
                    elif svt == "DUP":
                        if "CN" not in fmt_keys or vals[fmt_keys.index("CN")] not in {str(c) for c in cns}:
                            bad("vcf:cn-for-gains", f"gain cn {sorted(cns)}: FORMAT {f[8]} sample {f[9]}")
                    continue
            if must:
                ok = False
                bad("vcf:records", f"segment {(rec['chromosome'], rec['start'], rec['end'])} cn {sorted(cns)} != expected {x} has no record "
                    f"(next record: {recs_out[gi][:5] if gi < len(recs_out) else None})")
                break
        if ok and gi != len(recs_out):
            bad("vcf:records", f"unexpected record {recs_out[gi][:8]}")
    if not segarr.data.equals(before):
        bad("input-modified", "export changed its input array")
    # ---- command-line tier (a quarter of the cases): `cnvkit.py export bed` / `export vcf` on the written segments = the
    # library calls on the same file, the sample sex given on the command line
    from vk import gen

    if gen.pick(case, "cli", 4) == 0 and not out:
        import shutil
        import tempfile

        from vk import cli

        cli.use_case(case)

        d = tempfile.mkdtemp(prefix="vk20.")
        try:
            mode = {"sample": "sample", "genes": "genes", "custom": "my label"}[case["label"]]
            for show in ("all", "ploidy", "variant"):
                diff = cli.export_bed_diff(segarr, d, case["ploidy"], case["male_ref"], case["female"], case["par"], mode, show, tag="e" + show)
                if diff:
                    bad("cli:export-bed", diff)
                    break
            diff = cli.export_vcf_diff(segarr, d, case["ploidy"], case["male_ref"], case["female"], case["par"])
            if diff:
                bad("cli:export-vcf", diff)
        finally:
            shutil.rmtree(d, ignore_errors=True)
    return out


def _write_tab(path, cols, rows):
    with open(path, "w") as fh:
        fh.write("\t".join(cols) + "\n")
        for r in rows:
            fh.write("\t".join(repr(v) if isinstance(v, float) else str(v) for v in r) + "\n")


def _check_multi(case):
    from cnvlib import export
    from vk import gen

    out = []
    # where on the chromosomes the shared bins sit (near the start, human-chromosome scale, beyond 2^31): a pure function
    # of the case (seeded change C20h compared bin coordinates with a relative tolerance, so 1-bp differences at large
    # coordinates were merged instead of refused)
    off = gen.offset_for(case)
    if off:
        case = dict(case, bins=[[b[0], b[1] + off, b[2] + off, b[3]] for b in case["bins"]])

    def bad(clause, detail):
        out.append({"clause": clause, "detail": f"{detail}; bins={case['bins'][:6]} fault={case['fault']} ids={[s['id'] for s in case['samples']]}"})

    tmp = tempfile.mkdtemp(prefix="c20.")
    try:
        fnames = []
        tables = []
        for i, smp in enumerate(case["samples"]):
            bins = [list(b) for b in case["bins"]]
            sid = smp["id"]
            vals = list(smp["log2"])
            probes = list(smp["probes"])
            if case["fault"] != "none" and i == case["fault_at"]:
                if case["fault"] == "mismatch-coord":
                    bins[-1][2] += 1
                elif case["fault"] == "mismatch-gene":
                    bins[0][3] = bins[0][3] + "x"
                elif case["fault"] == "mismatch-len":
                    last = bins[-1]
                    bins.append([last[0], last[2] + 5, last[2] + 50, "G9"])
                    vals.append(0.25)
                    probes.append(3)
                elif case["fault"] == "dup-id":
                    sid = case["samples"][0]["id"]
            d = os.path.join(tmp, "d%d" % i)
            os.makedirs(d)
            rows = [[b[0], b[1], b[2], b[3], float(v), p, 1.0] for b, v, p in zip(bins, vals, probes)]
            _write_tab(os.path.join(d, f"{sid}.cnr"), ["chromosome", "start", "end", "gene", "log2", "probes", "weight"], rows)
            # the segment files (export seg takes any bins): in one case in three every sample but the first has no segment
            # on the first chromosome, so its chromosomes start elsewhere (seeded change C20p numbered the chromosomes of
            # each sample separately under --enumerate-chroms)
            first_chrom = case["bins"][0][0]
            if i >= 1 and gen.pick(case, "seg-subset", 3) == 0 and any(r[0] != first_chrom for r in rows):
                rows = [r for r in rows if r[0] != first_chrom]
            _write_tab(os.path.join(d, f"{sid}.cns"), ["chromosome", "start", "end", "gene", "log2", "probes", "weight"], rows)
            fnames.append(os.path.join(d, sid))
            tables.append((sid, rows))
        # ---- SEG (any bins, any ids)
        tbl = export.export_seg([f + ".cns" for f in fnames], chrom_ids=case["enumerate"])
        mapping = {}
        if case["enumerate"]:
            k = 0
            for r in tables[0][1]:
                if r[0] not in mapping:
                    k += 1
                    mapping[r[0]] = k
        exp = []
        for sid, rows in tables:
            for r in rows:
                exp.append((sid, str(mapping.get(r[0], r[0])), r[1] + 1, r[2], r[5], r[4]))
        got = [(r[0], str(r[1]), int(r[2]), int(r[3]), int(r[4]), float(r[5])) for r in
               tbl[["ID", "chrom", "loc.start", "loc.end", "num.mark", "seg.mean"]].itertuples(index=False)]
        if got != exp:
            bad("seg", f"export seg rows {got[:6]}, expected {exp[:6]}")
        # command-line tier (a quarter of the cases): `cnvkit.py export seg` on the same files
        if gen.pick(case, "cli", 4) == 0 and not out:
            from vk import cli

            cli.use_case(case)

            diff = cli.export_seg_diff([f + ".cns" for f in fnames], tmp, case["enumerate"])
            if diff:
                bad("cli:export-seg", diff)
        # ---- merged bin tables
        faulty = case["fault"] != "none"
        try:
            table = export.merge_samples([f + ".cnr" for f in fnames])
            merged = True
        except ValueError:
            merged = False
        if faulty and merged:
            bad("merge:refuse", f"inputs with fault {case['fault']} were merged instead of refused")
        if not faulty and not merged:
            bad("merge:refuse", "consistent inputs were refused")
        if merged and not faulty:
            ids = [sid for sid, _ in tables]
            labels = [f"{b[0]}:{b[1]}-{b[2]}:{b[3]}" for b in case["bins"]]
            hdr, rows = export.fmt_jtv(list(ids), table)
            rows = [tuple(r) for r in rows]
            exp = [("IMAGE:", lab) + tuple(float(s["log2"][i]) for s in case["samples"]) for i, lab in enumerate(labels)]
            if hdr != ["CloneID", "Name"] + ids or [(r[0], r[1]) + tuple(map(float, r[2:])) for r in rows] != exp:
                bad("jtv", f"header {hdr} rows {rows[:3]}, expected {exp[:3]}")
            hdr, rows = export.fmt_cdt(list(ids), table)
            rows = [tuple(r) for r in rows]
            body = rows[2:]
            exp = [(lab,) + tuple(float(s["log2"][i]) for s in case["samples"]) for i, lab in enumerate(labels)]
            if hdr[:4] != ["GID", "CLID", "NAME", "GWEIGHT"] or hdr[4:] != ids or \
                    [(r[2],) + tuple(map(float, r[4:])) for r in body] != exp:
                bad("cdt", f"header {hdr} rows {body[:3]}, expected {exp[:3]}")
        # ---- nexus-basic: one sample per file
        from cnvlib.cmdutil import read_cna

        cnarr = read_cna(fnames[0] + ".cnr")
        nb = export.export_nexus_basic(cnarr)
        exp = [(r[0], r[1], r[2], r[3], r[4], f"{r[0]}:{r[1] + 1}-{r[2]}") for r in tables[0][1]]
        got = [(r.chromosome, int(r.start), int(r.end), r.gene, float(r.log2), r.probe) for r in nb.itertuples(index=False)]
        if got != exp:
            bad("nexus-basic", f"rows {got[:4]}, expected {exp[:4]}")
    finally:
        shutil.rmtree(tmp, ignore_errors=True)
    return out
