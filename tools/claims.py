# executed by tools/mkmanifest.py: one claim(...) per property with a registered check
claim("C19",
      "property-based testing (Hypothesis): independent formula restatements + shift/scale metamorphic relations + half-weight inequalities over generated vectors",
      "Generated-input search: every estimator/smoother is run on thousands of generated vectors per run (ties, outliers, symmetric, constant, NaN, weight families) and compared with an independent restatement of its published formula plus the range / equivariance / invariance clauses of the statement. Sampling, not proof; right level because the property quantifies over all float vectors and the oracles are exact.",
      "Trusted: numpy median/sort, the restated formulas in vk/models.py; metamorphic clauses only on exactly representable shifts; ties at branch thresholds accept either branch.",
      "DESIGN.md 5/C19")
