"""C05 - the pooled reference is the robust per-bin consensus in the chosen reference sex."""
import math
import os
import shutil
import tempfile

import numpy as np
from hypothesis import strategies as st

from vk import gen
from vk import models as M

ID = "C05"
LEVEL = "exploration"
RULE = (
    "Hypothesis draws (a) cohorts of 1..8 samples written as <id>.targetcoverage.cnn (+ optional, possibly "
    "header-only, <id>.antitargetcoverage.cnn): shared bins over 3..8 autosomes + X (+Y), a common profile + "
    "per-sample depth scale + seeded noise (sd 0 or up to 0.3), any sex mix, either naming style, male/female "
    "reference, sexes given or inferred (>= 40 X bins), file order shuffled; exact tier with corrections off, "
    "semantic tier with corrections on (flat profile, sex chromosomes <= 10% of bins, optional FASTA); (b) "
    "negative cohorts with one file whose bin is moved, renamed or dropped, or whose chromosomes are named in the other style; (c) flat references from generated "
    "BED files (+- antitarget BED, +- FASTA over ACGTNacgtn, +- male reference). Oracle: reference_model parses "
    "the written files itself, centres each sample (targets skip null bins), adds the flat expectation, applies "
    "the sex shift, stacks under the flat pseudo-sample and takes vk/models.py biweight location / midvariance "
    "per bin; consequences (depth-only cohorts reproduce the centred profile with spread ~ 0; X at -1/0 and Y at "
    "-1) checked without the model; gc/rmask by a character loop. FASTA-less panels are placed at 3e6, 2.4e8 or "
    "beyond 2^31 (negatives also 2^32). Non-trivial = a mixed-sex cohort, or >= 3 samples with noise, or an "
    "antitarget block; distinct = distinct JSON."
)
CLI_SHARE = 2  # one case in CLI_SHARE also goes through the command line (vk/cli.py)
QUICK = {"examples": 240, "shards": 16, "budget_s": 500, "shrink": False}
THOROUGH = {"examples": 3200, "shards": 16, "budget_s": 3000}
ASSUMPTIONS = [
    "values are compared after parsing the written .cnn files the same way in the model (6 significant digits in the file are not a tolerance issue)",
    "estimator ties (biweight stopping test within rounding of its threshold; symmetric columns in the midvariance) accept either branch",
    "the 'consequently' clause is asserted for cohorts of >= 2 samples: with one sample the estimator definition itself gives the midpoint with the pseudo-sample",
    "when sexes are given (female_samples=True/False) the cohort really has that sex; when inferred, the profile amplitude is <= 0.2 and X and the autosomes hold >= 40 bins each",
    "rmask is read with the same unambiguous-base denominator as gc; both are 0 for an all-N bin; a pooled reference leaves rmask empty on target bins (it is only used for antitargets) - not asserted there",
    "semantic tier (corrections on): bins, order and the X/Y levels are asserted, not exact values",
    "null-coverage bins: up to 5% when sexes are inferred or corrections are on (sex inference on null-heavy samples is outside C15's premise), up to 30% otherwise",
]


@st.composite
def strategy(draw):
    kind = draw(st.sampled_from(["cohort", "cohort", "cohort", "semantic", "negative", "flat"]))
    style = draw(st.sampled_from(["chr", ""]))
    seed = draw(st.integers(0, 2 ** 31))
    male_ref = draw(st.booleans())
    if kind == "flat":
        return {"kind": "flat", "style": style, "seed": seed, "male_ref": male_ref, "nauto": draw(st.integers(1, 4)),
                "has_y": draw(st.booleans()), "anti": draw(st.booleans()), "fasta": draw(st.integers(0, 3)) > 0,
                "bins": draw(st.integers(1, 12)), "width": draw(st.sampled_from([7, 50, 60]))}
    nauto = draw(st.integers(3, 8))
    nsamp = draw(st.one_of(st.integers(1, 3), st.integers(1, 8)))
    given = draw(st.sampled_from([None, None, True, False]))
    if given is None:
        sexes = [draw(st.booleans()) for _ in range(nsamp)]
    else:
        sexes = [given] * nsamp
    semantic = kind == "semantic"
    return {
        "kind": kind, "style": style, "seed": seed, "male_ref": male_ref, "nauto": nauto, "has_y": draw(st.booleans()),
        # inferred sexes need autosomes to compare X with: at least 40 autosomal bins then, as in C15's premise
        "per_auto": draw(st.integers(50, 70)) if semantic else max(draw(st.integers(3, 20)), -(-40 // nauto) if given is None else 0),
        "nx": draw(st.integers(40, 48)) if (given is None or semantic) else draw(st.sampled_from([3, 12, 40])),
        "ny": draw(st.integers(4, 12)),
        "female": sexes, "given": given,
        "scales": [draw(st.integers(-24, 24)) / 8.0 for _ in range(nsamp)],
        "sd": draw(st.sampled_from([0.0, 0.0, 0.05, 0.3])),
        "amp": draw(st.sampled_from([0.0, 0.0, 0.2])) if semantic else draw(st.sampled_from([0.0, 0.2, 0.2])) if given is None else draw(st.sampled_from([0.0, 0.2, 1.5])),
        "anti": draw(st.sampled_from(["none", "full", "full", "empty"])),
        # a panel without sex-chromosome targets: sexes can then only be inferred from the antitarget files
        "t_sex": draw(st.integers(0, 3)) > 0,
        "null_frac": draw(st.sampled_from([0.0, 0.0, 0.05, 0.3] if (given is not None and not semantic) else [0.0, 0.0, 0.05])),
        "female_y": draw(st.sampled_from(["null", "low"])),
        "shuffle": draw(st.booleans()), "fasta": semantic and draw(st.booleans()),
        "corrupt": draw(st.sampled_from(["move", "rename", "drop", "restyle", "empty"])) if kind == "negative" else None,
    }


# ------------------------------------------------------------------ builders
def chrom_names(case):
    s = case["style"]
    names = [s + str(k + 1) for k in range(case["nauto"])] + [s + "X"]
    if case["has_y"]:
        names.append(s + "Y")
    return names


def _offset(case):
    if case["kind"] == "negative" and "offset" not in case:
        import json
        import zlib

        return [0, 240000000, 2 ** 31 + 7, 2 ** 32 + 11][zlib.crc32(json.dumps(case, sort_keys=True, default=str).encode()) % 4]
    return gen.offset_for(case)


def bins_of(case):
    """-> (target bins, antitarget bins) as lists of (chrom, start, end, gene)"""
    t, a = [], []
    for c in chrom_names(case):
        bare = c[3:] if c.startswith("chr") else c
        n = case["nx"] if bare == "X" else case["ny"] if bare == "Y" else case["per_auto"]
        # without a FASTA the panel may sit far up the chromosome (2.4e8, beyond 2^31): a pure function of the case
        # (seeded change C05h compared bin coordinates with a relative tolerance, exact only below 1e9)
        pos = 3_000_000 + (0 if case.get("fasta") else _offset(case))
        no_t = bare in ("X", "Y") and not case.get("t_sex", True) and case["anti"] == "full"
        for i in range(n):
            if not no_t:
                t.append((c, pos, pos + 150, "G%s_%d" % (bare, i // 3)))
            a.append((c, pos + 400, pos + 5400, "Antitarget"))
            pos += 6000
    return t, a


def sample_values(case, bins, block, si, rng, profile):
    rows = []
    female = case["female"][si]
    # the autosomal baseline of this block, as every sample will be centred: X / Y sit relative to it
    base = centre([(c, s, e, g, profile[j], 1.0) for j, (c, s, e, g) in enumerate(bins)], False)
    for j, (c, s, e, g) in enumerate(bins):
        bare = c[3:] if c.startswith("chr") else c
        v = profile[j] + case["scales"][si] + (base if bare in ("X", "Y") else 0.0)
        null = False
        if bare == "X":
            v += 0.0 if female else -1.0
        elif bare == "Y":
            if female:
                if case["female_y"] == "null":
                    null = True
                else:
                    v += -6.0
            else:
                v += -1.0
        elif rng.random() < case["null_frac"]:
            null = True
        if case["sd"]:
            v += float(rng.normal(0, case["sd"]))
        if null:
            rows.append((c, s, e, g, -20.0, 0.0))
        else:
            rows.append((c, s, e, g, v, 2 ** v * 100))
    return rows


def write_cnn(path, rows):
    with open(path, "w") as fh:
        fh.write("chromosome\tstart\tend\tgene\tlog2\tdepth\n")
        for c, s, e, g, v, d in rows:
            fh.write(f"{c}\t{s}\t{e}\t{g}\t{v:.6g}\t{d:.6g}\n")


def parse_cnn(path):
    rows = []
    with open(path) as fh:
        next(fh)
        for line in fh:
            c, s, e, g, v, d = line.rstrip("\n").split("\t")
            rows.append((c, int(s), int(e), g, float(v), float(d)))
    return rows


def fasta_for(case, d, length):
    rng = np.random.default_rng(case["seed"] + 5)
    path = os.path.join(d, "g.fa")
    seqs = {}
    with open(path, "w") as fh:
        for c in chrom_names(case):
            parts = []
            n = 0
            while n < length:
                ln = int(rng.integers(1, 400))
                cls = int(rng.integers(0, 5))
                if cls == 0:
                    s = "N" * ln
                elif cls == 1:
                    s = "".join(rng.choice(list("acgt"), size=ln))
                elif cls == 2:
                    s = "".join(rng.choice(list("ACGT"), size=ln))
                elif cls == 3:
                    s = "".join(rng.choice(list("GCgc"), size=ln))
                else:
                    s = "".join(rng.choice(list("ACGTacgtNn"), size=ln))
                parts.append(s)
                n += ln
            seq = "".join(parts)[:length]
            seqs[c] = seq
            fh.write(">" + c + "\n")
            w = case.get("width", 60)
            for i in range(0, len(seq), w):
                fh.write(seq[i:i + w] + "\n")
    return path, seqs


def gc_rm(seq):
    at = sum(seq.count(x) for x in "AaTt")
    gc = sum(seq.count(x) for x in "GgCc")
    lo = sum(seq.count(x) for x in "acgt")
    tot = at + gc
    if not tot:
        return 0.0, 0.0
    return gc / tot, lo / tot


# ------------------------------------------------------------------ model
def autosome_like(name):
    n = name[3:] if name.startswith("chr") else name
    return n.isdigit()


def centre(rows, skip_low):
    groups = {}
    for c, s, e, g, v, d in rows:
        if skip_low and (v < -15 or d == 0):
            continue
        if autosome_like(c):
            groups.setdefault(c, []).append(v)
    if not groups:
        return 0.0
    return M.median([M.median(vs) for vs in groups.values()])


def shifted(case, rows, skip_low, female):
    c0 = centre(rows, skip_low)
    out = []
    for c, s, e, g, v, d in rows:
        bare = c[3:] if c.startswith("chr") else c
        flat = -1.0 if bare == "Y" or (bare == "X" and case["male_ref"]) else 0.0
        x = v - c0 + flat
        if female:
            if bare == "Y":
                x = -1.0
        elif bare in ("X", "Y"):
            x += 1.0
        out.append(x)
    return out


def flat_of(case, bins):
    out = []
    for c, *_ in bins:
        bare = c[3:] if c.startswith("chr") else c
        out.append(-1.0 if bare == "Y" or (bare == "X" and case["male_ref"]) else 0.0)
    return out


def nontrivial(case):
    if case["kind"] in ("flat", "negative"):
        return case["kind"] == "flat" and case["fasta"]
    return len(set(case["female"])) == 2 or (len(case["female"]) >= 3 and case["sd"] > 0) or case["anti"] != "none"


def classify(case):
    labs = ["kind:" + case["kind"], "ref:" + ("male" if case["male_ref"] else "female")]
    if case["kind"] == "flat":
        return labs + (["fasta"] if case["fasta"] else [])
    labs.append("samples:%d" % len(case["female"]) if len(case["female"]) < 3 else "samples:>=3")
    labs.append("sexes:" + ("mixed" if len(set(case["female"])) == 2 else "uniform"))
    labs.append("sex:" + ("inferred" if case["given"] is None else "given"))
    labs.append("anti:" + case["anti"])
    if case["sd"] == 0:
        labs.append("depth-only")
    if case["null_frac"]:
        labs.append("null-bins")
    if not case.get("t_sex", True) and case["anti"] == "full":
        labs.append("no-sex-chromosome-targets")
    return labs


def known(case, v):
    return None


def _close(a, b, tol=1e-9):
    if math.isnan(a) or math.isnan(b):
        return math.isnan(a) and math.isnan(b)
    return abs(a - b) <= tol * max(1.0, abs(a), abs(b))


def check_case(case):
    from cnvlib import reference

    out = []

    def bad(clause, detail):
        out.append({"clause": clause, "detail": f"{detail}; kind={case['kind']} male_ref={case['male_ref']} "
                    f"female={case.get('female')} given={case.get('given')} anti={case.get('anti')} sd={case.get('sd')} seed={case['seed']}"})

    d = tempfile.mkdtemp(prefix="vk05.")
    try:
        if case["kind"] == "flat":
            return _check_flat(case, d, bad, out)
        rng = np.random.default_rng(case["seed"])
        tb, ab = bins_of(case)
        prof_t = [0.0 if not autosome_like(c) else float(rng.uniform(-1, 1)) * case["amp"] for c, *_ in tb]
        prof_a = [0.0 if not autosome_like(c) else float(rng.uniform(-1, 1)) * case["amp"] for c, *_ in ab]
        ids = ["S%02d" % (7 * i % 31) for i in range(len(case["female"]))]
        tfiles, afiles = [], []
        for i, sid in enumerate(ids):
            rows = sample_values(case, tb, "t", i, rng, prof_t)
            if case["corrupt"] and i == len(ids) - 1:
                k = len(rows) // 2
                c, s, e, g, v, dd = rows[k]
                if case["corrupt"] == "move":
                    rows[k] = (c, s + 1, e, g, v, dd)
                elif case["corrupt"] == "rename":
                    rows[k] = (c, s, e, g + "x", v, dd)
                elif case["corrupt"] == "empty":
                    rows = []  # a header-only coverage file: no bin at all is not "the same bins" (seeded change C05p skipped it)
                elif case["corrupt"] == "restyle":
                    # the same coordinates and names under the other chromosome naming style (chr1 <-> 1): other bins
                    rows = [((c_[3:] if c_.startswith("chr") else "chr" + c_), s_, e_, g_, v_, d_) for c_, s_, e_, g_, v_, d_ in rows]
                else:
                    del rows[k]
            p = os.path.join(d, sid + ".targetcoverage.cnn")
            write_cnn(p, rows)
            tfiles.append(p)
            if case["anti"] != "none":
                p2 = os.path.join(d, sid + ".antitargetcoverage.cnn")
                write_cnn(p2, sample_values(case, ab, "a", i, rng, prof_a) if case["anti"] == "full" else [])
                afiles.append(p2)
        order = list(range(len(ids)))
        if case["shuffle"]:
            order = list(rng.permutation(len(ids)))
        tf = [tfiles[i] for i in order]
        af = [afiles[i] for i in (order[::-1] if case["shuffle"] else order)] if afiles else None
        fa = None
        seqs = None
        if case["fasta"]:
            fa, seqs = fasta_for(case, d, 3_000_000 + 6000 * max(case["per_auto"], case["nx"], case["ny"]) + 6000)
        on = case["kind"] == "semantic"

        def run():
            return reference.do_reference(tf, af, fa, case["male_ref"], None, case["given"], do_gc=on, do_edge=on, do_rmask=on)

        if case["kind"] == "negative":
            if len(ids) < 2:
                return out
            try:
                run()
            except (RuntimeError, ValueError):
                pass
            except Exception as exc:  # noqa: BLE001
                bad("negative:" + case["corrupt"], f"{type(exc).__name__} instead of a clean rejection: {exc}")
            else:
                bad("negative:" + case["corrupt"], "files whose bins differ were accepted")
            return out

        ref = run()
        got = [(r.chromosome, int(r.start), int(r.end), r.gene, float(r.log2), float(r.spread), float(r.depth)) for r in ref.data.itertuples(index=False)]
        blocks = [("t", tb, tf)] + ([("a", ab, af)] if case["anti"] == "full" else [])
        want_bins = sorted([b for _k, bins, _f in blocks for b in bins], key=lambda b: (chrom_names(case).index(b[0]), b[1], b[2]))
        if [g[:4] for g in got] != [tuple(b) for b in want_bins]:
            miss = [b for b in want_bins if tuple(b) not in {g[:4] for g in got}][:3]
            bad("bins", f"{len(got)} bins in the reference, {len(want_bins)} in the inputs (sorted); first missing {miss}; "
                        f"first rows {[g[:4] for g in got[:3]]} vs {want_bins[:3]}")
            return out
        got_by = {g[:3]: g for g in got}
        # ---------------- exact model
        if not on:
            for blk, bins, files in blocks:
                cols = []
                deps = []
                for i, sid in enumerate(ids):
                    rows = parse_cnn(os.path.join(d, sid + (".targetcoverage.cnn" if blk == "t" else ".antitargetcoverage.cnn")))
                    cols.append(shifted(case, rows, blk == "t", case["female"][i]))
                    deps.append([r[5] for r in rows])
                flat = flat_of(case, bins)
                for j, b in enumerate(bins):
                    col = [flat[j]] + [cv[j] for cv in cols]
                    g = got_by[b[:3]]
                    locs = M.biweight_location_candidates(col) if len(col) > 1 else [col[0]]
                    if not any(_close(g[4], x) for x in locs):
                        bad("model:log2", f"{b[:3]}: log2 {g[4]!r}, biweight location of {[round(x, 6) for x in col]} is {locs}")
                        break
                    sp = []
                    for loc in locs:
                        sp += M.biweight_midvariance_candidates(col, initial=loc)
                    if not any(_close(g[5], x, 1e-7) for x in sp):
                        bad("model:spread", f"{b[:3]}: spread {g[5]!r}, biweight midvariance of {[round(x, 6) for x in col]} about {locs} is {sp}")
                        break
                    dcol = [dv[j] for dv in deps]
                    dl = M.biweight_location_candidates(dcol) if len(dcol) > 1 else [dcol[0]]
                    if not any(_close(g[6], x, 1e-7) for x in dl):
                        bad("model:depth", f"{b[:3]}: depth {g[6]!r}, biweight location of {dcol} is {dl}")
                        break
        # ---------------- consequences
        k = len(ids)
        # Per-bin tolerance: a thorough run looks at ~1e5 noisy sex-chromosome bins, so 4 sigma would be exceeded by chance
        # (measured: 6 of 3200 cohorts); 6.5 sigma of the per-bin consensus (sd / sqrt(k)) is not (p ~ 1e-10 per bin).
        tol = max(6.5 * case["sd"] / math.sqrt(k), 2e-3) + (0.1 if on else 0.0)
        if k >= 2 and on and case["sd"] == 0 and case["null_frac"] == 0:
            # corrections on, samples identical up to a depth factor: whatever the corrections do, they do it to every
            # sample alike, so the samples still agree with one another bin for bin (spread ~ 0)
            for blk, bins, _f in blocks:
                worst = max(((got_by[b[:3]][5], b[:3]) for b in bins if autosome_like(b[0])), default=(0.0, None))
                if worst[0] > 5e-3:
                    bad("consequence:spread", f"block {blk}: depth-only cohort with corrections on, yet spread {worst[0]!r} at {worst[1]}")
        if k >= 2 and on:
            # corrections on: the rolling-median corrections respond to bin composition, so single bins may move;
            # the chromosome-level statement is asserted on the median of the X (and Y) bins of each block
            for blk, bins, _f in blocks:
                if case["amp"]:
                    break  # a non-flat profile is itself reshaped by the corrections: only the spread clause above applies
                for bare, want in (("X", -1.0 if case["male_ref"] else 0.0), ("Y", -1.0)):
                    vals = [got_by[b[:3]][4] for b in bins if (b[0][3:] if b[0].startswith("chr") else b[0]) == bare]
                    if vals and abs(M.median(vals) - want) > tol:
                        bad("consequence:level", f"block {blk}: median reference log2 on {bare} is {M.median(vals)!r}, expected {want} +- {tol:.3g}")
        elif k >= 2:
            for blk, bins, _f in blocks:
                prof = prof_t if blk == "t" else prof_a
                # profile centred the way every sample is (null bins excluded for targets only by chance, not by position)
                rows0 = [(c, s, e, g, prof[j], 1.0) for j, (c, s, e, g) in enumerate(bins)]
                c0 = centre(rows0, False)
                for j, b in enumerate(bins):
                    bare = b[0][3:] if b[0].startswith("chr") else b[0]
                    g = got_by[b[:3]]
                    if bare == "X":
                        want = -1.0 if case["male_ref"] else 0.0
                    elif bare == "Y":
                        want = -1.0
                    else:
                        if case["sd"] or case["null_frac"] or on:
                            continue
                        want = prof[j] - c0
                    if case["null_frac"] and (case["amp"] or case["null_frac"] >= 0.3):
                        continue  # null bins shift each sample's own centre by a profile- and noise-dependent amount
                    if abs(g[4] - want) > tol + (0.02 if case["sd"] else 0):
                        bad("consequence:level", f"{b[:3]}: reference log2 {g[4]!r}, expected {want!r} +- {tol:.3g} ({'X/Y level' if bare in 'XY' else 'common profile'})")
                        break
                    if case["sd"] == 0 and not on and bare not in ("X", "Y") and g[5] > 2e-3:
                        bad("consequence:spread", f"{b[:3]}: depth-only cohort but spread {g[5]!r}")
                        break
        if seqs is not None and "gc" in ref.data.columns:
            _check_gc(ref, seqs, bad)
        # ---- command-line tier (half of the cases): `cnvkit.py reference` on the same files = do_reference with
        # the documented mapping of its options (files sorted into targets / antitargets by name, -x, -y, --no-*)
        if gen.pick(case, "cli", 2) == 0 and not out:
            from vk import cli

            cli.use_case(case)

            diff = cli.reference_diff(tf, af, fa, d, case["male_ref"], case["given"], on, on, on)
            if diff:
                bad("cli:reference", diff)
    finally:
        shutil.rmtree(d, ignore_errors=True)
    return out


def _check_gc(ref, seqs, bad):
    for r in ref.data.itertuples(index=False):
        gc, rm = gc_rm(seqs[r.chromosome][int(r.start):int(r.end)])
        if not _close(float(r.gc), gc, 1e-12):
            bad("gc", f"{r.chromosome}:{r.start}-{r.end} gc={float(r.gc)!r}, character count gives {gc!r}")
            return
        if hasattr(r, "rmask") and not math.isnan(float(r.rmask)) and not _close(float(r.rmask), rm, 1e-12):
            bad("rmask", f"{r.chromosome}:{r.start}-{r.end} rmask={float(r.rmask)!r}, character count gives {rm!r}")
            return


def _check_flat(case, d, bad, out):
    from cnvlib import reference

    rng = np.random.default_rng(case["seed"])
    names = chrom_names(case)
    tb, ab = [], []
    length = 4000
    for c in names:
        pos = int(rng.integers(0, 50))
        for i in range(case["bins"]):
            size = int(rng.integers(1, 200))
            if pos + size > length:
                break
            tb.append((c, pos, pos + size, "G%d" % i))
            pos += size + int(rng.integers(0, 60))
            if case["anti"] and pos + 300 < length:
                ab.append((c, pos, pos + 250, "Antitarget"))
                pos += 250 + int(rng.integers(0, 60))
        # on one chromosome in three a whole-gene bait spans all the others (nested bins: the last row by start is not
        # the row that ends furthest right - seeded change C05o read one FASTA stretch per chromosome up to the last row's
        # end and sliced every bin out of it)
        mine = [b for b in tb if b[0] == c]
        if len(mine) >= 2 and gen.pick(case, "nested" + c, 3) == 0:
            tb.append((c, mine[0][1], min(length, mine[-1][2] + 300), "WHOLE"))
    tbed = os.path.join(d, "t.bed")
    with open(tbed, "w") as fh:
        for c, s, e, g in tb:
            fh.write(f"{c}\t{s}\t{e}\t{g}\n")
    abed = None
    if case["anti"] and ab:
        abed = os.path.join(d, "a.bed")
        with open(abed, "w") as fh:
            for c, s, e, g in ab:
                fh.write(f"{c}\t{s}\t{e}\t{g}\n")
    fa = seqs = None
    if case["fasta"]:
        fa, seqs = fasta_for(case, d, length)
    ref = reference.do_reference_flat(tbed, abed, fa, case["male_ref"])
    want = sorted(tb + (ab if abed else []), key=lambda b: (names.index(b[0]), b[1], b[2]))
    got = [(r.chromosome, int(r.start), int(r.end), r.gene) for r in ref.data.itertuples(index=False)]
    if got != want:
        bad("flat:bins", f"{len(got)} bins vs {len(want)} in the BED files; first rows {got[:3]} vs {want[:3]}")
        return out
    for r in ref.data.itertuples(index=False):
        bare = r.chromosome[3:] if r.chromosome.startswith("chr") else r.chromosome
        w = -1.0 if bare == "Y" or (bare == "X" and case["male_ref"]) else 0.0
        if float(r.log2) != w:
            bad("flat:log2", f"{r.chromosome}:{r.start} log2 {float(r.log2)!r}, expected {w}")
            break
    if seqs is not None:
        if "gc" not in ref.data.columns or "rmask" not in ref.data.columns:
            bad("flat:gc", "no gc / rmask columns although a FASTA was given")
        else:
            _check_gc(ref, seqs, bad)
    # command-line tier (a quarter of the cases): `cnvkit.py reference -t ... [-a ...] [-f ...] [-y]` on the same files
    if gen.pick(case, "cli", 4) == 0 and not out:
        from vk import cli

        cli.use_case(case)

        diff = cli.reference_flat_diff(tbed, abed, fa, d, case["male_ref"])
        if diff:
            bad("cli:reference-flat", diff)
    return out
