#!/bin/bash
# tools/thorough_all.sh [ids...] : every thorough check once on the unchanged tree (evidence to a scratch directory);
# C06 / C07 at the 0..5 enumeration scope unless VERIF_ENUM_TOP is set. Prints one line per check.
cd "$(dirname "$0")/.."
out=$(mktemp -d /tmp/vk-thorough.XXXXXX)
bad=0
for p in ${@:-C01 C02 C03 C04 C05 C06 C07 C08 C09 C10 C11 C12 C13 C14 C15 C16 C17 C18 C19 C20}; do
  s=$(date +%s)
  VERIF_ENUM_TOP=${VERIF_ENUM_TOP:-5} VERIF_EVIDENCE_DIR="$out" ./check $p --tier thorough > "$out/$p.log" 2>&1
  rc=$?
  [ $rc -ne 0 ] && bad=$((bad+1))
  echo "$p exit=$rc $(( $(date +%s)-s ))s $(grep -E 'seed=' "$out/$p.log" | tail -1 | cut -c1-160)"
  [ $rc -ne 0 ] && grep -E "violated clause|HARNESS" "$out/$p.log" | cut -c1-400
done
echo "thorough finished: $bad not quiet; logs in $out"
