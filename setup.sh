#!/bin/bash
# MANIFEST.setup_cmd: make sure hypothesis is importable beside the repository's packages and atheris sits under .deps (offline).
set -e
PY="${VERIF_PYTHON:-/venv/bin/python}"
if ! "$PY" -c "import hypothesis" 2>/dev/null; then
  /venv/bin/pip install --no-index --find-links /opt/veriftools/wheels hypothesis
fi
"$PY" -c "import hypothesis, pandas, numpy, scipy, pysam; print('setup ok: hypothesis', hypothesis.__version__)"
# atheris (coverage-guided campaigns of the thorough tier for C08, C13); optional: the thorough checks report when it is missing
if [ ! -d .deps/atheris ]; then
  /venv/bin/pip install -q --no-index --find-links /opt/veriftools/wheels --target .deps atheris 2>/dev/null || echo "setup: atheris not installed (thorough-tier fuzz campaigns will be skipped)"
fi
mkdir -p evidence replays
