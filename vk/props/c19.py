"""C19 - robust estimators and smoothers obey their defining invariants."""
import math

import numpy as np
from hypothesis import strategies as st

from vk import models as M

ID = "C19"
LEVEL = "exploration"
RULE = (
    "Hypothesis draws (function, float vector of length 1..400 (weighted estimators: also 100..3001, seeded dyadic values) from five families: dyadic palette with ties, "
    "general floats over 1e-6..1e6, all-equal, exactly symmetric, one extreme outlier; optional NaNs; weight "
    "vector families equal / positive / one dominant / with zeros; shift, scale, smoother width). Oracles: "
    "independent restatement of each published formula, range, shift/scale metamorphic relations on exactly "
    "representable (dyadic) shifts, two-sided half-weight inequalities, smoother length/finiteness/constant/range. "
    "Non-trivial = vector with >= 3 non-NaN entries and >= 2 distinct values; distinct = distinct case JSON."
)
QUICK = {"examples": 8000, "shards": 8, "budget_s": 240}
THOROUGH = {"examples": 40000, "shards": 16, "budget_s": 1500}
ASSUMPTIONS = [
    "metamorphic shift/scale relations are evaluated on dyadic data (values m*2^e) with dyadic shifts and power-of-two "
    "scale factors, so the shifted data are exact and tolerances stay at 1e-9 relative",
    "stopping/branch tests of the biweight estimators that fall within 1e-9 of their threshold accept either branch",
    "general-float vectors flush |x| < 1e-6 (before scaling by the magnitude) to 0: vectors whose variance underflows "
    "to 0 in double precision are outside the generated domain; 'zero on constant data' allows 1e-9 relative rounding",
    "weighted Savitzky-Golay is only required to reproduce constants for weights in [0.5, 1] (well-conditioned normaliser)",
]

LOCS = ["biweight_location", "modal_location", "weighted_median"]
SCALES = ["median_absolute_deviation", "interquartile_range", "gapper_scale", "q_n", "biweight_midvariance",
          "weighted_mad", "weighted_std"]
SMOOTHERS = ["savgol", "savgol_w", "rolling_median", "kaiser"]
WEIGHTED = {"weighted_median", "weighted_mad", "weighted_std"}


# ------------------------------------------------------------------ strategies
@st.composite
def vectors(draw, max_len=400, long=False):
    fam = draw(st.sampled_from(["dyadic", "dyadic", "general", "equal", "symmetric", "outlier"]))
    n = draw(st.one_of(st.integers(1, 12), st.integers(1, 60), st.integers(1, max_len)))
    e = draw(st.integers(-20, 20))
    unit = 2.0 ** e
    if long:
        # hundreds to a few thousand values, as many even as odd (seeded change C19h: a rounding tolerance that only
        # fails for even lengths above ~100 with a non-dyadic common weight). The values come from a drawn seed: one
        # Hypothesis draw per element would exhaust its entropy buffer at these lengths.
        import random

        n = 2 * draw(st.integers(50, 1500)) + draw(st.integers(0, 1))
        rnd = random.Random(draw(st.integers(0, 1 << 20)))
        pal = draw(st.sampled_from([8, 1 << 16]))
        return {"fam": "long", "unit_exp": e, "x": [rnd.randint(-pal, pal) * unit for _ in range(n)]}
    if fam == "dyadic":
        pal = draw(st.one_of(st.just(8), st.just(1 << 16)))
        xs = [draw(st.integers(-pal, pal)) * unit for _ in range(n)]
    elif fam == "general":
        mag = draw(st.sampled_from([1e-6, 1e-3, 1.0, 1e3, 1e6]))
        # |x| < 1e-6 is flushed to 0 so that the spread of a vector never underflows in double precision
        xs = [(lambda v: v if abs(v) >= 1e-6 else 0.0)(draw(st.floats(-1, 1, allow_nan=False, width=64))) * mag
              for _ in range(n)]
    elif fam == "equal":
        v = draw(st.integers(-1000, 1000)) * unit
        xs = [v] * n
    elif fam == "symmetric":
        c = draw(st.integers(-100, 100))
        half = [draw(st.integers(0, 64)) for _ in range(max(1, n // 2))]
        ms = [c - h for h in half] + ([c] if n % 2 else []) + [c + h for h in half]
        xs = [m * unit for m in draw(st.permutations(ms))]
    else:
        xs = [draw(st.integers(-64, 64)) * unit for _ in range(n)]
        i = draw(st.integers(0, n - 1))
        xs[i] = draw(st.sampled_from([-1, 1])) * (1 << 26) * unit
    return {"fam": fam, "unit_exp": e, "x": xs}


@st.composite
def weights_for(draw, n, long=False):
    fam = draw(st.sampled_from(["equal", "positive", "dominant", "zeros"] + (["equal"] * 4 if long else [])))
    if fam == "equal":
        w = [draw(st.sampled_from([1.0, 0.5, 0.37, 0.1, 0.3, 0.7, 1.0 / 3, 1e-3, 2.3, 1e6 + 0.1]))] * n
    else:
        w = [draw(st.integers(1, 64)) / 64.0 for _ in range(n)]
        if fam == "dominant":
            w[draw(st.integers(0, n - 1))] = 1000.0
        elif fam == "zeros" and n > 1:
            k = draw(st.integers(1, n - 1))
            for i in draw(st.lists(st.integers(0, n - 1), min_size=k, max_size=k)):
                w[i] = 0.0
            if not any(w):
                w[0] = 1.0
    # a common power-of-two factor on every weight: none of the weighted estimators depends on it
    p = draw(st.sampled_from([0, 0, 0, -40, -34, 20]))
    return {"fam": fam, "w": [x * 2.0 ** p for x in w]}


@st.composite
def strategy(draw):
    kind = draw(st.sampled_from(["loc", "scale", "scale", "smooth"]))
    if kind == "loc":
        fn = draw(st.sampled_from(LOCS))
    elif kind == "scale":
        fn = draw(st.sampled_from(SCALES))
    else:
        fn = draw(st.sampled_from(SMOOTHERS))
    max_len = 120 if fn == "q_n" else 400
    vec = draw(vectors(max_len=max_len, long=fn in WEIGHTED and draw(st.integers(0, 3)) == 0))
    n = len(vec["x"])
    case = {"kind": kind, "fn": fn, "vec": vec}
    if fn in WEIGHTED:
        case["wt"] = draw(weights_for(n, long=vec["fam"] == "long"))
    if kind != "smooth":
        # NaNs where the estimator promises to ignore them
        if draw(st.integers(0, 4)) == 0:
            k = draw(st.integers(1, 3))
            case["nan_at"] = sorted(set(draw(st.lists(st.integers(0, n), min_size=k, max_size=k))))
        # (mostly a few thousand units; sometimes millions of units, where the data's spread is tiny relative to its level -
        # seeded change C19o compared the extremes with np.isclose and took such a vector for constant)
        case["shift_m"] = draw(st.one_of(st.integers(-(1 << 12), 1 << 12), st.integers(-(1 << 12), 1 << 12),
                                         st.sampled_from([1 << 20, -(1 << 22), 1 << 24, 3 << 26])))
        case["scale_pow"] = draw(st.integers(-6, 6))
        case["scale_neg"] = draw(st.booleans())
    else:
        if draw(st.booleans()):
            case["width"] = draw(st.floats(0.001, 0.999))
        else:
            case["width"] = draw(st.one_of(st.integers(2, 15), st.integers(2, 2 * n + 5)))
        if fn == "savgol_w":
            wf = draw(st.sampled_from(["unit", "wide"]))
            if wf == "unit":
                case["sw"] = {"fam": wf, "w": [0.5 + draw(st.integers(0, 64)) / 128.0 for _ in range(n)]}
            else:
                case["sw"] = {"fam": wf, "w": [draw(st.floats(1e-3, 10.0)) for _ in range(n)]}
    return case


# ------------------------------------------------------------------ helpers
def _data(case):
    xs = list(case["vec"]["x"])
    ws = list(case["wt"]["w"]) if "wt" in case else None
    for pos in reversed(case.get("nan_at", [])):
        xs.insert(pos, float("nan"))
        if ws is not None:
            ws.insert(pos, 1.0)
    return xs, ws


def _clean(case):
    return list(case["vec"]["x"]), (list(case["wt"]["w"]) if "wt" in case else None)


def nontrivial(case):
    xs = case["vec"]["x"]
    return len(xs) >= 3 and len(set(xs)) >= 2


def classify(case):
    labs = ["fn:" + case["fn"], "fam:" + case["vec"]["fam"], "len:" + ("1" if len(case["vec"]["x"]) == 1 else
            "2" if len(case["vec"]["x"]) == 2 else "3-20" if len(case["vec"]["x"]) <= 20 else ">20")]
    if "wt" in case:
        labs.append("w:" + case["wt"]["fam"])
    if case.get("nan_at"):
        labs.append("with-nan")
    if case["kind"] == "smooth":
        w = case["width"]
        labs.append("width:fraction" if w < 1 else ("width:wider" if w > len(case["vec"]["x"]) else "width:int"))
    return labs


def known(case, v):
    return None


def _call(fn, xs, ws=None):
    from cnvlib import descriptives as D

    f = getattr(D, fn)
    if fn in WEIGHTED:
        return float(f(np.array(xs, dtype=float), np.array(ws, dtype=float)))
    return float(f(np.array(xs, dtype=float)))


def _tol(xs, extra=0.0):
    return 1e-9 * (max((abs(x) for x in xs), default=0.0) + abs(extra)) + 1e-300


def _near_any(val, cands, tol):
    for c in cands:
        if (math.isinf(c) and c == val) or abs(val - c) <= tol + 1e-9 * abs(c):
            return True
    return False


# ------------------------------------------------------------------ the check
def check_case(case):
    if case["kind"] == "smooth":
        return _check_smoother(case)
    out = []
    fn = case["fn"]
    xs_nan, ws_nan = _data(case)
    xs, ws = _clean(case)
    n = len(xs)
    lo, hi = min(xs), max(xs)
    tol = _tol(xs)
    res = _call(fn, xs_nan, ws_nan)

    def bad(clause, detail):
        out.append({"clause": f"{fn}:{clause}", "detail": f"{detail}; x={xs_nan[:12]}{'...' if n > 12 else ''} w={ws_nan[:12] if ws_nan else None}"})

    # NaN entries are ignored: same answer as on the NaN-free vector
    if case.get("nan_at"):
        res_clean = _call(fn, xs, ws)
        if not M.close(res, res_clean, 1e-12, 0.0):
            bad("nan-ignored", f"with NaNs {res!r} != without {res_clean!r}")

    if math.isnan(res):
        bad("finite", f"returned NaN on {n} finite values")
        return out

    unit = 2.0 ** case["vec"]["unit_exp"]
    exact_shift = case["vec"]["fam"] != "general"
    k = case["shift_m"] * unit
    s = (2.0 ** case["scale_pow"]) * (-1 if case["scale_neg"] else 1)
    const = len(set(xs)) == 1

    if case["kind"] == "loc":
        if not (lo - tol <= res <= hi + tol):
            bad("range", f"result {res!r} outside [{lo!r}, {hi!r}]")
        # model agreement
        if fn == "biweight_location":
            cands = [xs[0]] if n == 1 else M.biweight_location_candidates(xs)
            if not _near_any(res, cands, tol):
                bad("model", f"result {res!r}, independent biweight location {cands!r}")
        elif fn == "modal_location":
            if n >= 2 and not const:
                dens = M.kde_density_at_points(xs)
                arr = np.asarray(xs)
                hit = np.nonzero(arr == res)[0]
                if not len(hit):
                    bad("model", f"mode {res!r} is not a data point")
                elif dens[hit[0]] < dens.max() * (1 - 1e-9):
                    bad("model", f"mode {res!r} has KDE density {dens[hit[0]]!r} < max {dens.max()!r}")
            elif res != xs[0]:
                bad("model", f"mode of constant data {xs[0]!r} reported as {res!r}")
        elif fn == "weighted_median":
            W = sum(ws)
            below = sum(w for x, w in zip(xs, ws) if x < res)
            above = sum(w for x, w in zip(xs, ws) if x > res)
            wtol = 1e-12 * W
            if below > W / 2 + wtol:
                bad("half-weight-below", f"weight(values < {res!r}) = {below!r} > half of {W!r}")
            if above > W / 2 + wtol:
                bad("half-weight-above", f"weight(values > {res!r}) = {above!r} > half of {W!r}")
            if len(set(ws)) == 1:
                med = M.median(xs)
                if abs(res - med) > tol:
                    bad("equal-weights-median", f"equal weights: got {res!r}, ordinary median {med!r}")
        # shift equivariance (exact data only)
        if exact_shift:
            xs2 = [x + k for x in xs]
            res2 = _call(fn, xs2, ws)
            t2 = _tol(xs, k)
            if fn == "modal_location":
                if n >= 2 and not const:
                    dens = M.kde_density_at_points(xs)
                    arr = np.asarray(xs)
                    hit = np.nonzero(np.abs(arr - (res2 - k)) <= t2)[0]
                    if not len(hit) or dens[hit].max() < dens.max() * (1 - 1e-9):
                        bad("shift", f"mode of shifted data minus shift = {res2 - k!r} is not a maximal-density point")
            elif fn == "weighted_median":
                # any valid weighted median of the shifted data is acceptable only if it moved with the data
                if abs((res2 - k) - res) > t2:
                    bad("shift", f"f(x)+k = {res + k!r} but f(x+k) = {res2!r} (k={k!r})")
            else:
                cands = M.biweight_location_candidates(xs) if n > 1 else [xs[0]]
                if abs((res2 - k) - res) > t2 and not _near_any(res2 - k, cands, t2):
                    bad("shift", f"f(x)+k = {res + k!r} but f(x+k) = {res2!r} (k={k!r})")
        return out

    # ---- scale estimators
    if res < 0:
        bad("nonnegative", f"result {res!r} < 0")
    if const and abs(res) > tol:
        bad("zero-on-constant", f"constant data gave {res!r}")
    # model agreement
    if n == 1:
        cands = [0.0] if fn not in WEIGHTED else None  # weighted_* on one value return the value itself (decorator default)
    elif fn == "median_absolute_deviation":
        cands = [M.mad(xs)]
    elif fn == "interquartile_range":
        cands = [M.iqr(xs)]
    elif fn == "gapper_scale":
        cands = [M.gapper(xs)]
    elif fn == "q_n":
        cands = [M.qn(xs)]
    elif fn == "biweight_midvariance":
        cands = M.biweight_midvariance_candidates(xs)
    elif fn == "weighted_std":
        cands = [M.weighted_std(xs, ws)]
    elif fn == "weighted_mad":
        from cnvlib import descriptives as D

        m = float(D.weighted_median(np.array(xs), np.array(ws)))
        dev = [abs(x - m) for x in xs]
        wl, wh = M.weighted_median_interval(dev, ws)
        cands = None
        if not (wl * 1.4826 - tol <= res <= wh * 1.4826 + tol):
            bad("model", f"weighted MAD {res!r} not 1.4826 x a weighted median of |x - {m!r}|, i.e. in [{wl * 1.4826!r}, {wh * 1.4826!r}]")
    if cands is not None and not _near_any(res, cands, tol):
        bad("model", f"result {res!r}, independent implementation {cands!r}")

    if n >= 2 and exact_shift:
        res2 = _call(fn, [x + k for x in xs], ws)
        t2 = _tol(xs, k)
        # the statement exempts the biweight midvariance from the shift / scale clauses (it switches to the MAD on exactly
        # symmetric data, and adding a constant can break or create that exact symmetry); its value is checked by the model
        ok = fn == "biweight_midvariance" or abs(res2 - res) <= t2
        if not ok:
            bad("shift-invariant", f"f(x) = {res!r} but f(x+k) = {res2!r} (k={k!r})")
        tied = False
        if fn == "weighted_mad" and s < 0:
            # The weighted median is not unique when the cumulative weight hits exactly half (every value of an interval
            # satisfies the half-weight inequalities); cnvkit's choice inside that interval depends on the order of the
            # zero-weight points, which a negative factor reverses. A tie the statement leaves open: not asserted.
            lo_, hi_ = M.weighted_median_interval(xs, ws)
            tied = lo_ != hi_
        if fn != "biweight_midvariance" and not tied:
            res3 = _call(fn, [x * s for x in xs], ws)
            if abs(res3 - abs(s) * res) > _tol([x * s for x in xs]):
                bad("scale-proportional", f"f(s*x) = {res3!r} but |s|*f(x) = {abs(s) * res!r} (s={s!r})")
    return out


def _check_smoother(case):
    from cnvlib import smoothing as S

    out = []
    fn = case["fn"]
    xs = list(case["vec"]["x"])
    n = len(xs)
    width = case["width"]
    lo, hi = min(xs), max(xs)
    tol = _tol(xs)

    def bad(clause, detail):
        out.append({"clause": f"{fn}:{clause}", "detail": f"{detail}; width={width!r} n={n} x={xs[:12]}{'...' if n > 12 else ''}"})

    def run(vals, wts=None):
        x = np.array(vals, dtype=float)
        if fn == "savgol":
            return S.savgol(x, width)
        if fn == "savgol_w":
            return S.savgol(x, width, weights=np.array(wts, dtype=float))
        if fn == "rolling_median":
            return S.rolling_median(x, width)
        return S.kaiser(x, width)

    wts = case["sw"]["w"] if fn == "savgol_w" else None
    y = np.asarray(run(xs, wts), dtype=float)
    if len(y) != n:
        bad("length", f"{len(y)} values out for {n} in")
        return out
    if not np.isfinite(y).all():
        bad("finite", f"non-finite outputs at {np.nonzero(~np.isfinite(y))[0][:5].tolist()}")
    if fn in ("rolling_median", "kaiser"):
        if (y < lo - tol).any() or (y > hi + tol).any():
            bad("range", f"output range [{y.min()!r}, {y.max()!r}] leaves input range [{lo!r}, {hi!r}]")
    # constant reproduction (weighted variant only with well-conditioned weights)
    if fn != "savgol_w" or case["sw"]["fam"] == "unit":
        c = xs[0]
        yc = np.asarray(run([c] * n, wts), dtype=float)
        if len(yc) != n or not np.isfinite(yc).all() or np.abs(yc - c).max() > 1e-9 * abs(c) + 1e-300:
            bad("constant", f"constant signal {c!r} came back as {yc[:6].tolist()}")
    return out
