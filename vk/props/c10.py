"""C10 - results depend only on arguments (not workers, RNG, history); inputs untouched."""
import copy
import math
import os
import random
import shutil
import tempfile

import numpy as np
from hypothesis import strategies as st

ID = "C10"
LEVEL = "exploration"
RULE = (
    "Hypothesis draws call histories: a workspace seed (baits, access regions, target/antitarget coverage, pooled reference, "
    ".cnr, hand-cut segments, segments with ci/sem columns, a VariantArray, shared filter lists and an ignore tuple are built "
    "from it) and a sequence of 1..4 steps from {target, antitarget, fix, segment (none/haar/hmm/hmm-tumor/hmm-germline, processes 1/2/3/16, outlier filter 10/3/off, min_weight 0/0.3), "
    "segmetrics, call (every method x filter list), genemetrics, breaks, bintest, metrics, export bed/vcf/seg-like/theta/nexus, "
    "center_all on a copy, merge/flatten/subtract/intersection/subdivide/resize, merge/flatten with a caller-supplied combiner dict on an overlapping mixed-strand table, by_arm/by_gene iteration, reseed(numpy, "
    "random)}; half of the sequences repeat an earlier step (with another process count) after a reseed. After every step a deep "
    "snapshot of every workspace object (values, dtypes, index, columns, meta minus the chr_x/chr_y cache, lists, tuples) "
    "must equal the one before, and the result must equal both the first result of the same step in this history and a fresh "
    "single-process recomputation on a pristine copy of the workspace under a fixed RNG state. A second kind performs 1..5 "
    "ensure_path + write cycles on one path and requires k files with the i-th oldest content intact. Non-trivial = a history "
    "in which some step is evaluated twice with a reseed or another process count in between, or k >= 2 writes; distinct = "
    "distinct case JSON."
)
QUICK = {"examples": 640, "shards": 16, "budget_s": 500, "shrink": False}
THOROUGH = {"examples": 3200, "shards": 16, "budget_s": 3000}
ASSUMPTIONS = [
    "histories are sampled (length <= 4 as the property states); worker interleavings are whatever the OS gives",
    "results are compared exactly (bitwise floats, NaN = NaN): the same code on the same arguments must give the same table",
    "side effects outside arguments and results (process-wide warnings filter installed by segmetrics, numpy RNG re-seeded by fix/segmetrics) are outside the statement",
]
METHODS = ["none", "haar", "hmm-germline"]
FILTER_KEYS = ["f_none", "f_cn", "f_ci_cn", "f_sem_ampdel", "f_ampdel_cn", "f_ci"]


# ------------------------------------------------------------------ strategy
@st.composite
def step(draw):
    op = draw(st.sampled_from([
        "target", "antitarget", "fix", "segment", "segment", "segmetrics", "call", "call", "genemetrics", "breaks", "bintest",
        "metrics", "export_bed", "export_vcf", "export_seg", "export_theta", "export_nexus", "center", "interval", "combine", "by_arm",
        "by_gene", "reseed"]))
    s = {"op": op}
    if op == "target":
        s.update(split=draw(st.booleans()), short=draw(st.booleans()), avg=draw(st.sampled_from([100, 267, 1000])))
    elif op == "antitarget":
        s.update(access=draw(st.booleans()), avg=draw(st.sampled_from([5000, 20000])), min=draw(st.sampled_from([None, 500])))
    elif op == "fix":
        s.update(gc=draw(st.booleans()), edge=draw(st.booleans()), rmask=draw(st.booleans()))
    elif op == "segment":
        # outliers 0 switches the outlier filter off (seeded change C10i: with every filter idle the HMM path then worked on
        # the caller's own array); min_weight > 0 drops the light bins
        s.update(method=draw(st.sampled_from(METHODS + ["hmm", "hmm-tumor"])), skip_low=draw(st.booleans()), procs=draw(st.sampled_from([1, 2, 3, 16])),
                 outliers=draw(st.sampled_from([10, 10, 0, 3])), min_weight=draw(st.sampled_from([0, 0, 0.3])))
    elif op == "segmetrics":
        s.update(loc=draw(st.sampled_from([[], ["mean", "median"], ["p_ttest"]])), spread=draw(st.sampled_from([[], ["stdev", "sem"], ["mad", "iqr", "bivar", "mse"]])),
                 interval=draw(st.sampled_from([[], ["ci"], ["pi"], ["ci", "pi"]])), boots=draw(st.sampled_from([10, 50])),
                 smoothed=draw(st.booleans()), alpha=draw(st.sampled_from([0.05, 0.5])))
    elif op == "call":
        method = draw(st.sampled_from(["threshold", "clonal", "none"]))
        # the cn-based filters need the cn column, which method "none" does not produce (cnvkit refuses that combination)
        s.update(method=method, filters=draw(st.sampled_from(FILTER_KEYS if method != "none" else ["f_none", "f_ci"])),
                 purity=draw(st.sampled_from([None, 0.6])), variants=draw(st.booleans()), male_ref=draw(st.booleans()),
                 female=draw(st.booleans()))
    elif op == "genemetrics":
        s.update(segments=draw(st.booleans()), rich=draw(st.booleans()), threshold=draw(st.sampled_from([0.1, 0.3])), min_probes=draw(st.sampled_from([1, 3])),
                 skip_low=draw(st.booleans()), female=draw(st.sampled_from([None, None, True, False])))
    elif op == "breaks":
        s.update(min_probes=draw(st.sampled_from([1, 2])))
    elif op == "bintest":
        s.update(segments=draw(st.booleans()), alpha=draw(st.sampled_from([0.005, 0.5])), target_only=draw(st.booleans()))
    elif op == "metrics":
        s.update(segments=draw(st.booleans()), skip_low=draw(st.booleans()))
    elif op in ("export_bed", "export_vcf"):
        s.update(ploidy=draw(st.sampled_from([2, 3])), male_ref=draw(st.booleans()), female=draw(st.booleans()),
                 show=draw(st.sampled_from(["all", "ploidy", "variant"])), called=draw(st.booleans()))
    elif op == "center":
        s.update(estimator=draw(st.sampled_from(["median", "mean", "mode", "biweight"])), skip_low=draw(st.booleans()))
    elif op == "interval":
        s.update(fn=draw(st.sampled_from(["merge", "flatten", "subtract", "intersection", "subdivide", "resize"])),
                 arg=draw(st.sampled_from([0, 50, 300])))
    elif op == "combine":
        # merge / flatten of an overlapping, mixed-strand table with a caller-supplied combiner dict
        s.update(fn=draw(st.sampled_from(["merge", "merge_stranded", "merge_bp", "flatten"])), which=draw(st.sampled_from(["cmb_gene", "cmb_val", "none"])))
    elif op == "reseed":
        s.update(k=draw(st.integers(0, 2 ** 31)))
    return s


@st.composite
def strategy(draw):
    if draw(st.integers(0, 7)) == 0:
        return {"kind": "writes", "k": draw(st.integers(1, 5)), "subdir": draw(st.booleans()), "seed": draw(st.integers(0, 1000)),
                "fmt": draw(st.sampled_from(["tab", "bed4"]))}
    steps = draw(st.lists(step(), min_size=1, max_size=4))
    if draw(st.integers(0, 3)) > 0 and len(steps) <= 2:
        base = dict(next((s for s in steps if s["op"] != "reseed"), steps[0]))
        if base.get("procs"):
            base["procs"] = draw(st.sampled_from([1, 2, 3, 16]))
        steps = steps + [{"op": "reseed", "k": draw(st.integers(0, 2 ** 31))}, base]
    return {"kind": "history", "seed": draw(st.integers(0, 1000)), "steps": steps[:4]}


# ------------------------------------------------------------------ workspace
def build_ws(seed):
    import pandas as pd
    from cnvlib import fix, segmetrics
    from cnvlib.cnary import CopyNumArray as CNA
    from cnvlib.vary import VariantArray
    from skgenome import GenomicArray as GA

    rng = np.random.default_rng(seed)
    # an autosome-only panel on a third of the workspaces: no chrX bin to infer the sample sex from
    CHR = ("chr1", "chr2", "chr3") if seed % 3 == 0 else ("chr1", "chr2", "chrX")
    tb, ab = [], []
    for c in CHR:
        pos = 200000
        level = 0.0
        for g in range(int(rng.integers(4, 8))):
            if rng.random() < 0.4:
                level = float(rng.choice([-1.0, 0.0, 0.58, 1.2]))
            for _ in range(int(rng.integers(2, 7))):
                size = int(rng.integers(80, 400))
                tb.append((c, pos, pos + size, "%s_G%d" % (c, g), level))
                pos += size + int(rng.integers(0, 200))
            ab.append((c, pos + 600, pos + 20600, "Antitarget", level))
            pos += 22000
    baits = GA(pd.DataFrame([(c, s, e, g) for c, s, e, g, _l in tb], columns=["chromosome", "start", "end", "gene"]), {"sample_id": "baits"})
    access = GA(pd.DataFrame([(c, 0, max(x[2] for x in ab if x[0] == c) + 50000) for c in CHR],
                             columns=["chromosome", "start", "end"]), {"sample_id": "access"})

    def cov(rows, sid, noise):
        recs = []
        for c, s, e, g, lv in rows:
            null = rng.random() < 0.03
            v = lv + float(rng.normal(0, noise)) + (-1.0 if c == "chrX" else 0.0) + 3.0
            recs.append((c, s, e, g, -20.0 if null else v, 0.0 if null else 2 ** v))
        return CNA(pd.DataFrame(recs, columns=["chromosome", "start", "end", "gene", "log2", "depth"]), {"sample_id": sid})

    tcov, acov = cov(tb, "samp", 0.15), cov(ab, "samp", 0.1)
    n = len(tb) + len(ab)
    allb = sorted(tb + ab, key=lambda r: (CHR.index(r[0]), r[1]))
    # GC values with many ties: the bias corrections then depend on their (seeded) tie-breaking shuffle
    gcs = np.round(0.32 + 0.36 * (rng.permutation(n) + 0.5) / n, 2)
    rms = (rng.permutation(n) + 0.5) / n
    ref = CNA(pd.DataFrame([(c, s, e, g, float(rng.uniform(-0.3, 0.3)) + (-1.0 if c == "chrX" else 0.0) + 3.0, 8.0, float(gcs[i]), float(rms[i]),
                             float(rng.choice([0.05, 0.2]))) for i, (c, s, e, g, _l) in enumerate(allb)],
                            columns=["chromosome", "start", "end", "gene", "log2", "depth", "gc", "rmask", "spread"]), {"sample_id": "ref"})
    cnr = fix.do_fix(tcov, acov, ref)
    cnr.meta = {"sample_id": "samp"}
    # hand-cut segments: 2-3 per chromosome at bin edges
    segs = []
    for c in CHR:
        sub = cnr.data[cnr.data.chromosome == c].reset_index(drop=True)
        cuts = sorted(set([0, len(sub)] + [int(x) for x in rng.integers(3, len(sub) - 3, size=2)]))
        for a, b in zip(cuts, cuts[1:]):
            part = sub.iloc[a:b]
            ok = part[part.log2 > -15]
            segs.append((c, int(part.start.iat[0]), int(part.end.iat[-1]), "-", float(np.average(ok.log2, weights=ok.weight)) if len(ok) else 0.0,
                         float(part.depth.mean()), len(part), float(part.weight.sum())))
    cns = CNA(pd.DataFrame(segs, columns=["chromosome", "start", "end", "gene", "log2", "depth", "probes", "weight"]), {"sample_id": "samp"})
    cns_m = segmetrics.do_segmetrics(cnr, cns, (), ("sem",), ("ci",), 0.05, 30, False)
    cns_m.meta = {"sample_id": "samp"}
    vrows = []
    for c, s, e, g, _l in tb[::2]:
        f = float(rng.choice([0.3, 0.45, 0.5, 0.62, 0.0, 1.0]))
        z = 0.0 if f == 0 else 1.0 if f == 1 else 0.5
        vrows.append((c, s + 5, s + 6, "A", "G", False, z, 60.0, round(60 * f), f))
    varr = VariantArray(pd.DataFrame(vrows, columns=["chromosome", "start", "end", "ref", "alt", "somatic", "zygosity", "depth", "alt_count", "alt_freq"]),
                        {"sample_id": "samp"})
    from skgenome import combiners

    iv = []
    for c in ("chr1", "chr2"):
        pos = 1000
        for k in range(int(rng.integers(4, 9))):
            ln = int(rng.integers(50, 400))
            iv.append((c, pos, pos + ln, "g%d" % (k // 2), "+-"[int(rng.integers(0, 2))], float(rng.integers(0, 9))))
            pos += int(rng.integers(-150, 200)) + (ln if rng.random() < 0.4 else ln // 3)
            pos = max(pos, iv[-1][1])
    iv.sort(key=lambda r: (r[0], r[1], r[2]))
    ivals = GA(pd.DataFrame(iv, columns=["chromosome", "start", "end", "gene", "strand", "val"]), {"sample_id": "ivals"})
    if seed % 3 == 1:
        # (set last, so that no library call made while building the workspace can undo it) coverage tables as a filter leaves them: row labels with gaps / not starting at 0 (seeded change C10o let do_fix
        # sort - and thereby renumber - the caller's own coverage arrays)
        from vk import gen

        gen.relabel(tcov.data, "gaps")
        gen.relabel(acov.data, [5, 1])
    return {"ivals": ivals, "cmb_gene": {"gene": max}, "cmb_val": {"val": max, "gene": combiners.join_strings},
            "baits": baits, "access": access, "tcov": tcov, "acov": acov, "ref": ref, "cnr": cnr, "cns": cns, "cns_m": cns_m, "varr": varr,
            "f_none": None, "f_cn": ["cn"], "f_ci_cn": ["ci", "cn"], "f_sem_ampdel": ["sem", "ampdel"], "f_ampdel_cn": ["ampdel", "cn"],
            "f_ci": ["ci"], "ignore": ("-", ".", "CGH")}


def snapshot(ws):
    out = {}
    for k, v in ws.items():
        if hasattr(v, "data") and hasattr(v, "meta"):
            df = v.data
            out[k] = ("arr", list(df.columns), [str(t) for t in df.dtypes], list(df.index), canon(df),
                      {a: b for a, b in v.meta.items() if a not in ("chr_x", "chr_y")})
        else:
            out[k] = copy.deepcopy(v)
    return out


def canon(x):
    import pandas as pd

    if hasattr(x, "data") and hasattr(x, "meta"):
        return canon(x.data)
    if isinstance(x, pd.DataFrame):
        rows = []
        for t in x.itertuples(index=False):
            rows.append(tuple(canon(v) for v in t))
        return ("df", list(x.columns), rows)
    if isinstance(x, pd.Series):
        return ("ser", [canon(v) for v in x.tolist()])
    if isinstance(x, np.ndarray):
        return ("arr", [canon(v) for v in x.tolist()])
    if isinstance(x, (list, tuple)):
        return [canon(v) for v in x]
    if isinstance(x, dict):
        return {k: canon(v) for k, v in x.items()}
    if isinstance(x, (float, np.floating)):
        x = float(x)
        return "nan" if math.isnan(x) else x.hex()
    if isinstance(x, (np.integer,)):
        return int(x)
    if isinstance(x, (np.bool_,)):
        return bool(x)
    return x


def execute(s, ws, procs_override=None):
    from cnvlib import antitarget, bintest, call, export, fix, metrics, reports, segmentation, segmetrics, target

    op = s["op"]
    if op == "target":
        return target.do_target(ws["baits"], None, s["short"], s["split"], s["avg"])
    if op == "antitarget":
        return antitarget.do_antitarget(ws["baits"], ws["access"] if s["access"] else None, s["avg"], s["min"])
    if op == "fix":
        return fix.do_fix(ws["tcov"], ws["acov"], ws["ref"], do_gc=s["gc"], do_edge=s["edge"], do_rmask=s["rmask"])
    if op == "segment":
        return segmentation.do_segmentation(ws["cnr"], s["method"], skip_low=s["skip_low"], skip_outliers=s.get("outliers", 10),
                                            min_weight=s.get("min_weight", 0), processes=procs_override or s["procs"])
    if op == "segmetrics":
        return segmetrics.do_segmetrics(ws["cnr"], ws["cns"], tuple(s["loc"]), tuple(s["spread"]), tuple(s["interval"]), s["alpha"], s["boots"], s["smoothed"])
    if op == "call":
        return call.do_call(ws["cns_m"], ws["varr"] if s["variants"] else None, s["method"], 2, s["purity"], s["male_ref"], s["female"], None, ws[s["filters"]])
    if op == "genemetrics":
        # segments: none, the plain table, or the one carrying extra columns (ci_lo, ci_hi, sem) as call/segmetrics leave it
        segs = None if not s["segments"] else ws["cns_m"] if s.get("rich") else ws["cns"]
        return reports.do_genemetrics(ws["cnr"], segs, s["threshold"], s["min_probes"], s["skip_low"], False, s["female"])
    if op == "breaks":
        return reports.do_breaks(ws["cnr"], ws["cns"], s["min_probes"])
    if op == "bintest":
        return bintest.do_bintest(ws["cnr"], ws["cns"] if s["segments"] else None, s["alpha"], s["target_only"])
    if op == "metrics":
        return metrics.do_metrics([ws["cnr"]], [ws["cns"]] if s["segments"] else None, s["skip_low"])
    if op == "export_bed":
        segs = call.do_call(ws["cns"], None, "threshold", s["ploidy"], None, s["male_ref"], s["female"]) if s["called"] else ws["cns"]
        return export.export_bed(segs, s["ploidy"], s["male_ref"], None, s["female"], "lab", s["show"])
    if op == "export_vcf":
        segs = call.do_call(ws["cns"], None, "threshold", s["ploidy"], None, s["male_ref"], s["female"]) if s["called"] else ws["cns"]
        return export.export_vcf(segs, s["ploidy"], s["male_ref"], None, s["female"], "samp", ws["cnr"] if s["show"] == "all" else None)[1]
    if op == "export_seg":
        from skgenome.tabio import seg
        return seg.write_seg(ws["cns"].data, "samp", None)
    if op == "export_theta":
        return export.export_theta(ws["cns"], ws["ref"])
    if op == "export_nexus":
        return export.export_nexus_basic(ws["cnr"])
    if op == "center":
        c = ws["cnr"].copy()
        c.center_all(estimator=s["estimator"], skip_low=s["skip_low"])
        return c
    if op == "interval":
        a, b = ws["baits"], ws["access"]
        if s["fn"] == "merge":
            return a.merge(bp=s["arg"])
        if s["fn"] == "flatten":
            return a.flatten()
        if s["fn"] == "subtract":
            return b.subtract(a.resize_ranges(s["arg"]))
        if s["fn"] == "intersection":
            return a.intersection(b.resize_ranges(-s["arg"]), mode="trim")
        if s["fn"] == "subdivide":
            return b.subdivide(5000 + s["arg"], s["arg"])
        return a.resize_ranges(s["arg"])
    if op == "combine":
        t, cmb = ws["ivals"], (None if s["which"] == "none" else ws[s["which"]])
        if s["fn"] == "merge":
            return t.merge(combine=cmb)
        if s["fn"] == "merge_stranded":
            return t.merge(stranded=True, combine=cmb)
        if s["fn"] == "merge_bp":
            return t.merge(bp=30, combine=cmb)
        return t.flatten(combine=cmb)
    if op == "by_arm":
        return [(c, arr) for c, arr in ws["cnr"].by_arm()]
    if op == "by_gene":
        return [(g, arr) for g, arr in ws["cnr"].by_gene(ws["ignore"])]
    if op == "reseed":
        np.random.seed(s["k"] % (2 ** 32))
        random.seed(s["k"])
        return None
    raise ValueError(op)


def step_key(s):
    return repr(sorted((k, v) for k, v in s.items() if k != "procs"))


def nontrivial(case):
    if case["kind"] == "writes":
        return case["k"] >= 2
    seen = {}
    for i, s in enumerate(case["steps"]):
        if s["op"] == "reseed":
            continue
        k = step_key(s)
        if k in seen:
            j = seen[k]
            between = case["steps"][j + 1:i]
            if any(b["op"] == "reseed" for b in between) or case["steps"][j].get("procs") != s.get("procs"):
                return True
        seen.setdefault(k, i)
    return False


def classify(case):
    if case["kind"] == "writes":
        return ["writes", "k:%d" % case["k"]]
    labs = ["history", "len:%d" % len(case["steps"])]
    labs += sorted({"op:" + s["op"] for s in case["steps"]})
    if any(s.get("procs", 1) > 1 for s in case["steps"]):
        labs.append("parallel")
    if nontrivial(case):
        labs.append("repeat-after-reseed/procs")
    return labs


def known(case, v):
    return None


_PRISTINE = {}


def pristine(seed):
    if seed not in _PRISTINE:
        if len(_PRISTINE) > 8:
            _PRISTINE.clear()
        np.random.seed(12345)
        _PRISTINE[seed] = build_ws(seed)
    return _PRISTINE[seed]


def module_state():
    """repr of every module-level dict / list / set of cnvlib and skgenome (constants, default tables): a step that
    changes one of them makes later results depend on the history without touching any argument (seeded change C10n
    kept the default column combiners in a module constant and overwrote an entry in the stranded branch)."""
    import sys

    out = {}
    for name, mod in list(sys.modules.items()):
        if mod is None or not (name == "cnvlib" or name.startswith("cnvlib.") or name == "skgenome" or name.startswith("skgenome.")):
            continue
        for attr, val in list(vars(mod).items()):
            if attr.startswith("__") or not isinstance(val, (dict, list, set)):
                continue
            try:
                out[f"{name}.{attr}"] = repr(sorted(val.items(), key=repr) if isinstance(val, dict) else sorted(val, key=repr) if isinstance(val, set) else val)
            except Exception:  # noqa: BLE001
                continue
    return out


def check_case(case):
    out = []
    if case["kind"] == "writes":
        return _check_writes(case)
    base = pristine(case["seed"])
    mods_before = module_state()
    base_snap = snapshot(base)
    ws = copy.deepcopy(base)
    first = {}
    for i, s in enumerate(case["steps"]):
        label = f"step {i} {s}"
        before = snapshot(ws)
        res = canon(execute(s, ws))
        after = snapshot(ws)
        for k in before:
            if before[k] != after[k]:
                out.append({"clause": f"argument-modified:{s['op']}:{k}", "detail": f"{label}: workspace object {k!r} changed "
                            f"(e.g. {str(before[k])[:120]} -> {str(after[k])[:120]}); history {case['steps']}"})
        if s["op"] == "reseed":
            continue
        k = step_key(s)
        if k in first and first[k] != res:
            out.append({"clause": f"result-differs-on-repeat:{s['op']}", "detail": f"{label}: result differs from the first evaluation in this history; "
                        f"history {case['steps']}"})
        first.setdefault(k, res)
        fresh_ws = copy.deepcopy(base)
        state = (np.random.get_state(), random.getstate())
        np.random.seed(777)
        random.seed(777)
        ref = canon(execute(s, fresh_ws, procs_override=1 if "procs" in s else None))
        np.random.set_state(state[0])
        random.setstate(state[1])
        if ref != res:
            why = _first_diff(ref, res)
            out.append({"clause": f"result-depends-on-history/rng/workers:{s['op']}", "detail": f"{label}: result differs from a fresh single-process "
                        f"recomputation on pristine arguments ({why}); history {case['steps']}"})
        if out:
            break
    mods_after = module_state()
    for k in mods_before:
        if k in mods_after and mods_after[k] != mods_before[k]:
            out.append({"clause": "module-state-modified", "detail": f"{k} changed during the history {case['steps']}: "
                        f"{mods_before[k][:160]} -> {mods_after[k][:160]}"})
            # put nothing back: the next case starts from whatever the library left, as a user's session would
            break
    if snapshot(base) != base_snap:
        out.append({"clause": "pristine-modified", "detail": "the pristine workspace itself changed (deep copies share state?)"})
    return out


def _first_diff(a, b, path=""):
    if type(a) != type(b):
        return f"{path}: {type(a).__name__} vs {type(b).__name__}"
    if isinstance(a, (list, tuple)):
        if len(a) != len(b):
            return f"{path}: length {len(a)} vs {len(b)}"
        for i, (x, y) in enumerate(zip(a, b)):
            if x != y:
                return _first_diff(x, y, f"{path}[{i}]")
    if isinstance(a, dict):
        for k in a:
            if a.get(k) != b.get(k):
                return _first_diff(a.get(k), b.get(k), f"{path}.{k}")
    return f"{path}: {str(a)[:80]} vs {str(b)[:80]}"


def _check_writes(case):
    import pandas as pd
    from cnvlib import core
    from skgenome import GenomicArray as GA, tabio

    out = []
    d = tempfile.mkdtemp(prefix="vk10.")
    try:
        # file and directory names as users choose them: spaces, glob metacharacters, several dots (a pure function of the
        # case; seeded change C10m looked for earlier copies with an unescaped glob pattern)
        from vk import gen

        base = ["out.cnn", "out.cnn", "sample[T1].cns", "a b.cnr", "x*.cnn", "q?.v2.cnn", "r{1}.cns"][gen.pick(case, "fname", 7)]
        sub = ["sub", "run[2]", "my dir"][gen.pick(case, "dname", 3)]
        path = os.path.join(d, sub, base) if case["subdir"] else os.path.join(d, base)
        contents = []
        # one of the writes may be of a table without rows: in a header-less format that is a 0-byte file, and it is kept
        # like any other (seeded change C10p let ensure_path overwrite zero-length files)
        empty_at = gen.pick(case, "empty-write", 2 * case["k"] + 2)
        for i in range(case["k"]):
            nrows = 0 if i == empty_at else 3 + i
            arr = GA(pd.DataFrame([("chr1", 10 * i + j, 10 * i + j + 5, "w%d_%d" % (i, j)) for j in range(nrows)],
                                  columns=["chromosome", "start", "end", "gene"]).astype({"start": "int64", "end": "int64"}),
                     {"sample_id": "s"})
            core.ensure_path(path)
            tabio.write(arr, path, case["fmt"])
            with open(path) as fh:
                contents.append(fh.read())
        names = sorted(os.listdir(os.path.dirname(path)))
        want = sorted([base] + [base + ".%d" % j for j in range(1, case["k"])])
        if names != want:
            out.append({"clause": "writes:files", "detail": f"after {case['k']} writes the directory holds {names}, expected {want}"})
            return out
        for j in range(1, case["k"]):
            with open(path + ".%d" % j) as fh:
                if fh.read() != contents[j - 1]:
                    out.append({"clause": "writes:content", "detail": f"{os.path.basename(path)}.{j} does not hold the content of write {j}"})
        with open(path) as fh:
            if fh.read() != contents[-1]:
                out.append({"clause": "writes:content", "detail": "the path itself does not hold the last write"})
    finally:
        shutil.rmtree(d, ignore_errors=True)
    return out


# ------------------------------------------------------------------ Hypothesis stateful mode (rule-based machine)
STATEFUL = {"quick": 12, "thorough": 60}  # machine runs (each up to 4 steps) per shard


def _run_step(ws, base, first, s, history):
    """One step of a history with the same three oracles as check_case; -> list of violation clauses"""
    bad = []
    before = snapshot(ws)
    res = canon(execute(s, ws))
    after = snapshot(ws)
    bad += [f"argument-modified:{s['op']}:{k}" for k in before if before[k] != after[k]]
    if s["op"] == "reseed":
        return bad
    k = step_key(s)
    if k in first and first[k] != res:
        bad.append(f"result-differs-on-repeat:{s['op']}")
    first.setdefault(k, res)
    fresh_ws = copy.deepcopy(base)
    state = (np.random.get_state(), random.getstate())
    np.random.seed(777)
    random.seed(777)
    ref = canon(execute(s, fresh_ws, procs_override=1 if "procs" in s else None))
    np.random.set_state(state[0])
    random.setstate(state[1])
    if ref != res:
        bad.append(f"result-depends-on-history/rng/workers:{s['op']}")
    return bad


def stateful_cases(tier, seed, shard, nshards):
    """Drive the same step executor from a Hypothesis RuleBasedStateMachine (rules = operations with generated arguments,
    the oracles run after every step, the whole history shrinks as one value). Returns (failing histories as replayable
    case JSON, number of machine steps executed); the runner re-checks each returned case through check_case."""
    import hypothesis
    from hypothesis import HealthCheck, Phase, settings
    from hypothesis.stateful import RuleBasedStateMachine, initialize, rule, run_state_machine_as_test

    failing, counter = [], {"steps": 0}

    class History(RuleBasedStateMachine):
        def __init__(self):
            super().__init__()
            self.steps = []
            self.ws = None

        @initialize(ws_seed=st.integers(0, 1000))
        def start(self, ws_seed):
            self.ws_seed = ws_seed
            self.base = pristine(ws_seed)
            self.ws = copy.deepcopy(self.base)
            self.first = {}

        @rule(s=step())
        def operation(self, s):
            self.steps.append(s)
            counter["steps"] += 1
            bad = _run_step(self.ws, self.base, self.first, s, self.steps)
            if bad:
                failing.append({"kind": "history", "seed": self.ws_seed, "steps": list(self.steps)})
                raise AssertionError(f"{bad} after history {self.steps}")

    try:
        run_state_machine_as_test(
            hypothesis.seed(seed)(History),
            settings=settings(max_examples=STATEFUL[tier], stateful_step_count=4, deadline=None, database=None,
                              report_multiple_bugs=False, phases=[Phase.generate, Phase.shrink] if tier == "thorough" else [Phase.generate],
                              suppress_health_check=list(HealthCheck)))
    except AssertionError:
        pass
    # the shrunk (last recorded) failing history is the smallest; keep the two smallest distinct ones
    failing.sort(key=lambda c: len(repr(c)))
    return failing[:2], counter["steps"]
