"""C17 - segment statistics and bin tests match their definitions on the right bins."""
import math

import numpy as np
from hypothesis import strategies as st

from vk import gen
from vk import models as M

ID = "C17"
LEVEL = "exploration"
RULE = (
    "Hypothesis draws (a) bin tables (1..3 chromosomes, log2 from a tie-rich palette + seeded noise, weights in "
    "(0,1), null-coverage bins, Antitarget names) with a segmentation at bin edges that also holds segments with "
    "no bin (in a gap or on a chromosome without bins) and one-bin segments, segment log2 offset from the bin "
    "mean, a subset of statistics, alpha, bootstraps, smoothed, skip_low, and runs segmetrics and bintest; (b) "
    "p-value vectors of length 1..200 with ties, 0 and 1 for p_adjust_bh. A third of the cases sit at 2.4e8 / "
    "beyond 2^31; bintest alphas down to 1e-40, adjusted p compared relatively (1e-7). Oracle: bins of a segment "
    "by the overlap inequality, each statistic recomputed independently (plain formulas / scipy.stats.t / normal "
    "cdf / O(n^2) Benjamini-Hochberg definition). Non-trivial = >= 2 segments with >= 3 bins each (a) or a vector "
    "with a tie and a value capped by a later one (b); distinct = distinct case JSON."
)
CLI_SHARE = 4  # one case in CLI_SHARE also goes through the command line (vk/cli.py)
QUICK = {"examples": 1600, "shards": 16, "budget_s": 300}
THOROUGH = {"examples": 24000, "shards": 16, "budget_s": 2400}
ASSUMPTIONS = [
    "bin weights lie in (0,1]; a full-weight bin (weight exactly 1, as fix's clipping produces) with a non-zero residual has p = 0 by the stated formula; with residual exactly 0 it is 0/0 and the bin is not asserted, but it still counts as a hypothesis for the BH adjustment",
    "each chromosome's segments are contiguous and in genomic order; the chromosomes may come in another order than in the bin table; segments do not overlap one another; boundaries lie at bin edges or inside a bin (the straddling bin then belongs to both neighbours for segmetrics and to neither for bintest); extra bin-less segments sit in gaps or on other chromosomes",
    "bintest tests exactly the bins wholly inside a segment; with target_only the off-target bins are removed before the BH adjustment (number of hypotheses = bins tested)",
    "an adjusted p within 1e-12 of alpha accepts either decision; floating tolerance 1e-9 on statistics",
    "the bootstrap CI is required to lie within the bins' range only when smoothed=False (the smoothed bootstrap adds noise by design)",
]
LOC = ["mean", "median", "p_ttest"]
SPREAD = ["stdev", "mad", "mse", "iqr", "bivar", "sem"]
INTERVAL = ["ci", "pi"]


@st.composite
def strategy(draw):
    if draw(st.integers(0, 3)) == 0:
        n = draw(st.one_of(st.integers(1, 8), st.integers(1, 200)))
        ps = [draw(st.one_of(st.sampled_from([0.0, 1.0, 0.05, 0.5]), st.floats(0, 1), st.floats(0, 1e-3))) for _ in range(n)]
        return {"kind": "bh", "p": ps}
    nchrom = draw(st.integers(1, 3))
    style = draw(st.sampled_from(["chr", "chr", ""]))
    chroms = []
    for ci in range(nchrom):
        nseg = draw(st.integers(1, 4))
        segs = []
        for _ in range(nseg):
            segs.append({"n": draw(st.one_of(st.integers(0, 4), st.integers(1, 40), st.integers(1, 300))),
                         "level": draw(st.sampled_from([-1.0, -0.3, 0.0, 0.0, 0.4, 1.0])),
                         "offset": draw(st.sampled_from([0.0, 0.0, 0.1, -0.25]))})
        chroms.append({"name": style + ["1", "2", "X"][ci], "segs": segs})
    return {"kind": "seg", "style": style, "chroms": chroms, "seed": draw(st.integers(0, 2 ** 31)),
            "noise": draw(st.sampled_from([0.0, 0.05, 0.3])), "palette": draw(st.booleans()),
            "null_frac": draw(st.sampled_from([0.0, 0.0, 0.0, 0.0, 0.1, 0.1, 1.0])),  # 1.0: every bin null-coverage (with skip_low: no bin left at all)
            "loc": sorted(draw(st.sets(st.sampled_from(LOC)))), "spread": sorted(draw(st.sets(st.sampled_from(SPREAD)))),
            "interval": sorted(draw(st.sets(st.sampled_from(INTERVAL)))),
            "alpha": draw(st.sampled_from([0.001, 0.05, 0.5, 0.9, 0.05])), "boots": draw(st.sampled_from([10, 50, 100, 300])),
            "smoothed": draw(st.booleans()), "skip_low": draw(st.booleans()),
            "extra_empty_chrom": draw(st.booleans()), "index": draw(st.sampled_from([[0, 1], [0, 1], [5, 2]])),
            "bt_alpha": draw(st.sampled_from([0.005, 0.05, 0.5, 0.05, 1e-16, 1e-40])), "target_only": draw(st.booleans()),
            "straddle": draw(st.lists(st.booleans(), min_size=12, max_size=12)), "full_weight": draw(st.booleans())}


def _cutoff_applies(case, s):
    return (case["palette"] and case["seed"] % 4 == 3 and case["null_frac"] == 0.0 and s["n"] >= 9
            and s["level"] in (-1.0, 0.0, 1.0) and s["offset"] in (0.0, -0.25))


def _on_cutoff(case, s, rng):
    """Bins built so that one of them lies exactly on the 9-MAD cut-off of the biweight midvariance (and one on the 6-MAD
    cut-off of the biweight location): binary fractions around a binary segment level - pairs at +-u (so MAD = u and the
    location stays on the level exactly), one bin each at +6u, +9u, -20u, -30u. The definition keeps |u_i| < 1 only
    (seeded change C17q counted the bin on the cut-off among the inliers)."""
    if not _cutoff_applies(case, s):
        return None
    u = [0.125, 0.25, 0.0625][int(rng.integers(0, 3))]
    n = s["n"]
    pairs = (n - 5) // 2
    ks = [1.0, -1.0] * pairs + [6.0, 9.0, -20.0, -30.0] + [0.0] * (n - 2 * pairs - 4)
    return [s["level"] + u * ks[i] for i in rng.permutation(n)]


def build(case):
    rng = np.random.default_rng(case["seed"])
    bins, segs = [], []
    for c in case["chroms"]:
        pos = int(rng.integers(0, 1000)) + gen.offset_for(case)
        for s in c["segs"]:
            start = pos
            vals = []
            planted = _on_cutoff(case, s, rng)
            for k_ in range(s["n"]):
                ln = int(rng.integers(20, 300))
                null = rng.random() < case["null_frac"]
                if planted is not None:
                    v = planted[k_]
                elif case["palette"]:
                    v = s["level"] + float(rng.integers(-2, 3)) / 8.0
                else:
                    v = s["level"] + float(rng.normal(0, case["noise"]))
                if null:
                    v = -20.0
                bins.append({"chromosome": c["name"], "start": pos, "end": pos + ln,
                             "gene": ["G", "Antitarget", "G", "Background"][int(rng.integers(0, 4))], "log2": v,
                             "depth": 0.0 if null else 10.0,
                             # fix clips weights to [1e-4, 1]: a full-weight bin (sd 0) is legitimate input
                             "weight": 1.0 if case.get("full_weight") and rng.random() < 0.08 else float(rng.uniform(0.02, 0.98))})
                vals.append(v)
                pos += ln + int(rng.integers(0, 3)) * 10
            if s["n"] == 0:
                pos += 500  # a bin-less segment in a gap
            end = pos if s["n"] == 0 else bins[-1]["end"]
            good = [v for v in vals if v > -15] or [0.0]
            segs.append({"chromosome": c["name"], "start": start, "end": max(end, start + 1), "gene": "-",
                         "log2": (float(np.mean(good)) if planted is None else s["level"]) + s["offset"],
                         "probes": s["n"], "weight": 1.0})
            pos = max(pos, segs[-1]["end"]) + int(rng.integers(0, 2)) * 100
    # move some boundaries into the middle of the following bin, so that a bin straddles two segments
    flags = case.get("straddle") or [False]
    for k in range(len(segs) - 1):
        a, b = segs[k], segs[k + 1]
        if flags[k % len(flags)] and a["chromosome"] == b["chromosome"] and b["probes"] >= 1:
            first = next(x for x in bins if x["chromosome"] == b["chromosome"] and x["start"] == b["start"])
            mid = (first["start"] + first["end"]) // 2
            if first["start"] < mid < min(first["end"], b["end"]) and mid > a["start"]:
                a["end"] = mid
                b["start"] = mid
    if case["extra_empty_chrom"]:
        segs.append({"chromosome": case.get("style", "chr") + "Y", "start": 10, "end": 5000, "gene": "-", "log2": 0.5, "probes": 0, "weight": 1.0})
    return bins, segs


def nontrivial(case):
    if case["kind"] == "bh":
        p = case["p"]
        return len(p) >= 3 and len(set(p)) < len(p) and len(set(p)) >= 2
    return sum(1 for c in case["chroms"] for s in c["segs"] if s["n"] >= 3) >= 2


def classify(case):
    if case["kind"] == "bh":
        return ["bh", "bh-len:" + ("1" if len(case["p"]) == 1 else "<=8" if len(case["p"]) <= 8 else ">8")]
    labs = ["seg"]
    ns = [s["n"] for c in case["chroms"] for s in c["segs"]]
    if 0 in ns or case["extra_empty_chrom"]:
        labs.append("empty-segment")
    if 1 in ns:
        labs.append("one-bin-segment")
    if max(ns) > 100:
        labs.append("big-segment")
    labs += ["stat:" + s for s in case["loc"] + case["spread"] + case["interval"]]
    if "bivar" in case["spread"] and any(_cutoff_applies(case, s) for c in case["chroms"] for s in c["segs"]):
        labs.append("bivar:bin-on-the-9-MAD-cut-off")
    if any(case.get("straddle", [])):
        labs.append("straddling-boundaries")
    if case["skip_low"]:
        labs.append("skip_low")
    if case["smoothed"]:
        labs.append("smoothed")
    return labs


def known(case, v):
    return None


def _same(a, b, tol=1e-9):
    if a is None or b is None:
        return False
    if math.isnan(a) and math.isnan(b):
        return True
    if math.isnan(a) or math.isnan(b):
        return False
    return abs(a - b) <= tol * max(1.0, abs(a), abs(b))


def ttest_p(vals):
    from scipy import stats

    n = len(vals)
    if n < 2:
        return float("nan")
    m = sum(vals) / n
    var = sum((v - m) ** 2 for v in vals) / (n - 1)
    if var == 0:
        return float("nan") if m == 0 else 0.0
    t = m / math.sqrt(var / n)
    return float(2 * stats.t.sf(abs(t), n - 1))


def stat_model(name, vals, dev):
    n = len(vals)
    if name == "mean":
        return sum(vals) / n if n else float("nan")
    if name == "median":
        return M.median(vals)
    if name == "p_ttest":
        return ttest_p(vals)
    if n == 0:
        return float("nan")
    if name == "stdev":
        m = sum(dev) / n
        return math.sqrt(sum((d - m) ** 2 for d in dev) / n)
    if name == "mad":
        return M.mad(dev) if n > 1 else 0.0
    if name == "mse":
        return sum(d * d for d in dev) / n if n > 1 else 0.0
    if name == "iqr":
        return M.iqr(dev) if n > 1 else 0.0
    if name == "sem":
        if n < 2:
            return float("nan")
        m = sum(dev) / n
        return math.sqrt(sum((d - m) ** 2 for d in dev) / (n - 1)) / math.sqrt(n)
    raise ValueError(name)


def check_case(case):
    if case["kind"] == "bh":
        return _check_bh(case)
    import pandas as pd
    from cnvlib import bintest, segmetrics
    from cnvlib.cnary import CopyNumArray

    out = []
    bins, segs = build(case)
    # the segment table may list its chromosomes in another order than the bin table (e.g. sorted by name: chr1, chr10,
    # chr2); each chromosome's segments stay contiguous and in genomic order, as every cnvkit reader leaves them
    if case["seed"] % 3 == 0:
        order = list(dict.fromkeys(s_["chromosome"] for s_ in segs))[::-1]
        segs = [s_ for c_ in order for s_ in segs if s_["chromosome"] == c_]

    def bad(clause, detail):
        out.append({"clause": clause, "detail": f"{detail}; segments={[(s['chromosome'], s['start'], s['end'], round(s['log2'], 4), s['probes']) for s in segs[:8]]} "
                    f"alpha={case['alpha']} boots={case['boots']} smoothed={case['smoothed']} skip_low={case['skip_low']}"})

    if not bins:
        return out
    df = pd.DataFrame(bins)
    off, step = case["index"]
    df.index = np.arange(len(df)) * step + off
    cnarr = CopyNumArray(df, {"sample_id": "s"})
    from vk import gen

    segarr = CopyNumArray(gen.relabel(pd.DataFrame(segs), gen.spec_for(case, "seg")), {"sample_id": "s"})
    before_bins, before_segs = cnarr.data.copy(), segarr.data.copy()

    def run():
        return segmetrics.do_segmetrics(cnarr, segarr, tuple(case["loc"]), tuple(case["spread"]), tuple(case["interval"]),
                                        case["alpha"], case["boots"], case["smoothed"], case["skip_low"])

    np.random.seed(12345)
    res = run()
    if len(res) != len(segs):
        bad("rows", f"{len(res)} rows for {len(segs)} segments")
        return out
    for col in before_segs.columns:
        if not res.data[col].equals(before_segs[col]):
            bad("segment-columns-unchanged", f"column {col} changed")
    usable = [b for b in bins if not (case["skip_low"] and (b["log2"] < -15 or b["depth"] == 0))]
    for i, s in enumerate(segs):
        inside = [b for b in usable if b["chromosome"] == s["chromosome"] and b["end"] > s["start"] and b["start"] < s["end"]]
        vals = [b["log2"] for b in inside]
        dev = [v - s["log2"] for v in vals]
        for name in case["loc"] + case["spread"]:
            got = float(res[name].iat[i])
            if name == "bivar":
                if not vals:
                    ok = math.isnan(got)
                    want = [float("nan")]
                elif len(vals) == 1:
                    ok, want = got == 0, [0.0]
                else:
                    want = M.biweight_midvariance_candidates(dev)
                    ok = any(_same(got, w) for w in want)
            else:
                want = [stat_model(name, vals, dev)]
                ok = _same(got, want[0], 1e-9 if name != "p_ttest" else 1e-7)
            if not ok:
                bad("stat:" + name, f"segment {i} ({len(vals)} bins, log2 {s['log2']!r}): {name}={got!r}, independent value {want}; bins log2={vals[:8]}")
                break
        if "pi" in case["interval"]:
            lo, hi = float(res["pi_lo"].iat[i]), float(res["pi_hi"].iat[i])
            if not vals:
                if not (math.isnan(lo) and math.isnan(hi)):
                    bad("pi", f"bin-less segment {i}: pi=({lo!r},{hi!r})")
            else:
                wl = M.percentile(vals, 100 * case["alpha"] / 2)
                wh = M.percentile(vals, 100 * (1 - case["alpha"] / 2))
                med = M.median(vals)
                if not (_same(lo, wl) and _same(hi, wh)) or not (lo <= med + 1e-12 and med <= hi + 1e-12):
                    bad("pi", f"segment {i}: pi=({lo!r},{hi!r}), percentiles ({wl!r},{wh!r}), median {med!r}")
        if "ci" in case["interval"]:
            lo, hi = float(res["ci_lo"].iat[i]), float(res["ci_hi"].iat[i])
            if not vals:
                if not (math.isnan(lo) and math.isnan(hi)):
                    bad("ci", f"bin-less segment {i}: ci=({lo!r},{hi!r})")
            else:
                if not lo <= hi:
                    bad("ci", f"segment {i}: ci_lo {lo!r} > ci_hi {hi!r}")
                if not case["smoothed"] and not (min(vals) - 1e-9 <= lo and hi <= max(vals) + 1e-9):
                    bad("ci", f"segment {i}: ci ({lo!r},{hi!r}) outside the bins' range ({min(vals)!r},{max(vals)!r})")
    if "ci" in case["interval"]:
        np.random.seed(case["seed"] % 1000 + 7)
        res2 = run()
        for col in ("ci_lo", "ci_hi"):
            a, b = res[col].values, res2[col].values
            if not ((a == b) | (np.isnan(a) & np.isnan(b))).all():
                bad("ci:reproducible", f"{col} differs between two runs under different global RNG states")
                break

    # ---- bintest
    resb = bintest.do_bintest(cnarr, segarr, case["bt_alpha"], case["target_only"])
    tested = []
    untestable = set()
    for b in bins:
        seg = [s for s in segs if s["chromosome"] == b["chromosome"] and b["start"] >= s["start"] and b["end"] <= s["end"]]
        if not seg:
            continue
        if case["target_only"] and b["gene"] in ("Antitarget", "Background"):
            continue
        r = b["log2"] - seg[0]["log2"]
        if b["weight"] >= 1.0:
            if r == 0:
                untestable.add((b["chromosome"], b["start"], b["end"]))  # 0/0: the statement defines no value
                continue
            p = 0.0  # |r| / sqrt(1 - 1) = inf: the two-sided tail is exactly 0
        else:
            p = 2.0 * _phi(-abs(r) / math.sqrt(1 - b["weight"]))
        tested.append((b, p))
    if untestable:
        # a 0/0 bin yields a NaN p-value inside the BH step-up: nothing about this table's bintest is asserted
        if not cnarr.data.equals(before_bins) or not segarr.data.equals(before_segs):
            bad("input-modified", "segmetrics/bintest changed their inputs")
        return out
    adj = M.bh_adjust([p for _, p in tested]) if tested else []
    exp = {}
    for (b, _p), q in zip(tested, adj):
        exp[(b["chromosome"], b["start"], b["end"])] = q
    got = {(r.chromosome, int(r.start), int(r.end)): float(r.p_bintest) for r in resb.data.itertuples(index=False)}
    for key, q in exp.items():
        edge = abs(q - case["bt_alpha"]) <= 1e-12
        if q < case["bt_alpha"] and not edge and key not in got:
            bad("bintest:set", f"bin {key} adjusted p {q!r} < alpha {case['bt_alpha']} not returned")
            break
        if q >= case["bt_alpha"] and not edge and key in got:
            bad("bintest:set", f"bin {key} adjusted p {q!r} >= alpha {case['bt_alpha']} returned (reported p {got[key]!r})")
            break
        # relative agreement: a tail probability of 1e-80 is a value like any other (seeded change C17h computed the
        # tail as 1 - cdf(|z|), which cancels to exactly 0 beyond |z| = 8.3)
        if key in got and abs(got[key] - q) > 1e-7 * max(abs(q), abs(got[key])) and max(abs(q), abs(got[key])) > 1e-300:
            bad("bintest:p", f"bin {key}: reported adjusted p {got[key]!r}, independent value {q!r}")
            break
    for key in got:
        if key not in exp and key not in untestable:
            bad("bintest:set", f"bin {key} returned but is not a tested bin (outside every segment or off-target)")
            break
    if not cnarr.data.equals(before_bins) or not segarr.data.equals(before_segs):
        bad("input-modified", "segmetrics/bintest changed their inputs")
    # ---- command-line tier (a quarter of the cases): `cnvkit.py segmetrics` / `bintest` on the written tables = the
    # library calls on the same files
    if gen.pick(case, "cli", 4) == 0 and not out:
        import shutil
        import tempfile

        from vk import cli

        d = tempfile.mkdtemp(prefix="vk17.")
        try:
            diff = cli.segmetrics_diff(cnarr, segarr, d, case["loc"], case["spread"], case["interval"], case["alpha"], case["boots"],
                                       case["smoothed"], case["skip_low"])
            if diff:
                bad("cli:segmetrics", diff)
            diff = cli.bintest_diff(cnarr, segarr, d, case["bt_alpha"], case["target_only"])
            if diff:
                bad("cli:bintest", diff)
        finally:
            shutil.rmtree(d, ignore_errors=True)
    return out


def _phi(x):
    return 0.5 * math.erfc(-x / math.sqrt(2.0))


def _check_bh(case):
    from cnvlib import bintest

    out = []
    p = case["p"]
    got = bintest.p_adjust_bh(np.array(p, dtype=float))
    want = M.bh_adjust(p)
    if len(got) != len(p):
        return [{"clause": "bh", "detail": f"{len(got)} values for {len(p)} p-values"}]
    for i, (g, w) in enumerate(zip(got, want)):
        if not _same(float(g), w, 1e-12) and abs(float(g) - w) > 1e-300:
            out.append({"clause": "bh", "detail": f"p_adjust_bh({p[:10]}...)[{i}] = {float(g)!r}, definition gives {w!r}"})
            break
    return out
