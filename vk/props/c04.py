"""C04 - fix subtracts the reference bin-for-bin by coordinate and normalises soundly."""
import math

import numpy as np
from hypothesis import strategies as st

from vk import models as M

ID = "C04"
LEVEL = "exploration"
RULE = (
    "Hypothesis draws a bin universe (2..5 autosomes + optional X/Y; clusters of 1..6 target bins with gaps from {0, 10, 100, "
    "300, 5000} and distinct sizes, one Antitarget bin between clusters), a reference over a superset of it (pooled with "
    "fractional log2 and spreads from a palette, or flat; with/without gc and rmask columns; bad bins planted on and just "
    "beyond every filter threshold), and sample target / antitarget tables over the same bins or a subset (empty antitargets, "
    "null-coverage bins, a Picard-style gc column), a subset of {gc, edge, rmask}, row permutations of each input and a depth "
    "scale; plus negative cases (a sample bin absent from the reference, duplicated coordinates). Oracle: an independent "
    "fix_model in numpy/dicts (coordinate-keyed matching, filters, class centring, rolling-median corrections ordered by the "
    "covariate, reference subtraction, final centring) compared row for row when the covariates are tie-free, plus the direct "
    "clauses: bins kept, genomic order, class-constant offset with corrections off, centred, weight range and monotonicity, "
    "permutation and rescaling invariance, errors. Non-trivial = a reference bin is filtered and the sample row order differs from "
    "the reference order, or a correction is enabled; distinct = distinct case JSON."
)
CLI_SHARE = 4  # one case in CLI_SHARE also goes through the command line (vk/cli.py)
QUICK = {"examples": 800, "shards": 16, "budget_s": 500, "shrink": False}
THOROUGH = {"examples": 6400, "shards": 16, "budget_s": 3000}
ASSUMPTIONS = [
    "gc and rmask covariates are distinct by construction; when the edge covariate (computed by the model) has ties the exact-value clause is skipped, because ties are broken by a seeded shuffle the property does not define",
    "fewer than half of a class's bins are null-coverage (otherwise cnvkit skips the corrections with a warning)",
    "the weight formula itself is not restated: only the range and the two monotonicity clauses of the statement are asserted",
    "depth-rescaling invariance is asserted on samples without null-coverage bins",
    "weights of a class whose residuals are symmetric to rounding are not compared across permuted / rescaled variants (biweight_midvariance switches formula on an exact == 0.0 test there: a floating-point tie)",
    "no clustered reference (do_cluster off)",
    "a class none of whose emitted bins has coverage has no variance estimate: its weights are not asserted",
]
INSERT = 250
ANTI = ("Antitarget", "Background")


@st.composite
def strategy(draw):
    nauto = draw(st.integers(2, 5))
    style = draw(st.sampled_from(["chr", "chr", ""]))  # chromosome naming: chr1..chrX or 1..X
    chroms = [style + "%d" % k for k in sorted(draw(st.lists(st.integers(1, 22), min_size=nauto, max_size=nauto, unique=True)))]
    if draw(st.booleans()):
        chroms.append(style + "X")
    if draw(st.integers(0, 3)) == 0:
        chroms.append(style + "Y")
    if draw(st.integers(0, 4)) == 0:
        # two unplaced contigs of one family, whose names differ only deep inside the accession: they sort after the
        # sex chromosomes, by name (seeded change C04m gave them one sort key, so their rows interleaved)
        chroms += [style + "1_KI270706v1_random", style + "1_KI270707v1_random"]
    # every subset of the three corrections, "none" and "all" twice: with nothing switched on the rows keep the labels
    # the filters left them (seeded change C04o attached the weights of a flat reference by label there)
    corr = draw(st.sampled_from(["", "", "g", "e", "r", "ge", "gr", "er", "ger", "ger"]))
    return {
        "chroms": chroms, "seed": draw(st.integers(0, 2 ** 31)),
        "clusters": draw(st.one_of(st.integers(1, 3), st.integers(2, 12))), "max_in_cluster": draw(st.integers(1, 6)),
        "anti": draw(st.sampled_from(["full", "full", "empty", "subset"])),
        "pooled": draw(st.integers(0, 2)) > 0, "ref_gc": draw(st.integers(0, 3)) > 0, "ref_rmask": draw(st.integers(0, 3)) > 0,
        "bad_frac": draw(st.sampled_from([0.0, 0.1, 0.25])), "null_frac": draw(st.sampled_from([0.0, 0.0, 0.03, 0.08])),
        "drop_frac": draw(st.sampled_from([0.0, 0.0, 0.1])), "picard_gc": draw(st.integers(0, 4)) == 0,
        "do_gc": "g" in corr, "do_edge": "e" in corr, "do_rmask": "r" in corr,
        "perm": draw(st.sampled_from([[], ["target"], ["anti"], ["ref"], ["target", "anti", "ref"], ["target", "ref"]])),
        "scale": draw(st.sampled_from([0.0, 1.0, -3.0, 2.5])), "noise": draw(st.sampled_from([0.0, 0.1, 0.4])),
        "negative": draw(st.sampled_from([None, None, None, None, None, "missing", "missing-end", "dup-sample", "dup-ref"])),
        "extra_ref": draw(st.integers(0, 2)) > 0, "ref_targets_only": draw(st.booleans()),
        # where on the chromosome the bins sit: near the start, at human chromosome scale, beyond 2^31
        "offset": draw(st.sampled_from([0, 0, 0, 240000000, 3000000000])),
    }


# ------------------------------------------------------------------ builders
def build(case):
    """-> (target rows, antitarget rows, reference rows); rows are dicts, in genomic order."""
    rng = np.random.default_rng(case["seed"])
    uni = []
    uid = 0
    for c in case["chroms"]:
        pos = int(rng.integers(1000, 50000)) + int(case.get("offset", 0))
        for _ in range(case["clusters"]):
            for _k in range(int(rng.integers(1, case["max_in_cluster"] + 1))):
                size = int(rng.choice([60, 120, 200, 300, 500, 900])) + uid % 37
                uni.append({"chromosome": c, "start": pos, "end": pos + size, "gene": "G%d" % (uid // 3), "cls": "t"})
                uid += 1
                if uid % 8 == 5:
                    # a second bait with the same start and a later end (a longer isoform's exon): genomic order is by
                    # (chromosome, start, end) - seeded change C04q sorted by start only
                    uni.append({"chromosome": c, "start": pos, "end": pos + size + 41, "gene": "G%d" % (uid // 3), "cls": "t"})
                    uid += 1
                pos += size + int(rng.choice([0, 10, 100, 240, 300, 5000])) + int(rng.integers(0, 7))
            pos += 600
            size = int(rng.choice([5000, 20000, 50000])) + int(rng.integers(0, 500))
            uni.append({"chromosome": c, "start": pos, "end": pos + size, "gene": "Antitarget", "cls": "a"})
            pos += size + 600
    n = len(uni)
    gcs = 0.31 + 0.38 * (rng.permutation(n) + 0.5) / n
    rms = (rng.permutation(n) + 0.25) / n
    spreads = rng.choice([0.02, 0.05, 0.2, 0.5], size=n)
    ref = []
    profile = rng.uniform(-1.0, 1.0, size=n)
    used = set()
    for i, b in enumerate(uni):
        r = dict(b)
        on_sex = b["chromosome"] in ("chrX", "chrY", "X", "Y")
        if case["pooled"]:
            r["log2"] = float(profile[i]) - (1.0 if on_sex else 0.0)
            r["spread"] = float(spreads[i])
        else:
            r["log2"] = -1.0 if b["chromosome"] in ("chrY", "Y") else 0.0
            r["spread"] = 0.0
        r["depth"] = float(2 ** r["log2"] * 100)
        r["gc"] = float(gcs[i])
        r["rmask"] = float(rms[i])
        if rng.random() < case["bad_frac"]:
            kind = str(rng.choice(["lo", "hi", "lo-edge", "hi-edge", "spread", "spread-edge", "depth0", "gc-lo", "gc-hi", "gc-lo-edge", "gc-hi-edge"]))
            if kind in ("gc-lo-edge", "gc-hi-edge") and kind in used:
                kind = "lo"
            used.add(kind)
            r["bad"] = kind
            if kind == "lo":
                r["log2"] = -5.0 - float(rng.uniform(0.001, 3))
            elif kind == "hi":
                r["log2"] = 5.0 + float(rng.uniform(0.001, 3))
            elif kind == "lo-edge":
                r["log2"] = -5.0
            elif kind == "hi-edge":
                r["log2"] = 5.0
            elif kind == "spread":
                r["spread"] = 1.0 + float(rng.uniform(0.001, 1))
            elif kind == "spread-edge":
                r["spread"] = 1.0
            elif kind == "depth0":
                r["depth"] = 0.0
            elif kind == "gc-lo":
                r["gc"] = 0.3 - (i + 1) * 1e-4
            elif kind == "gc-hi":
                r["gc"] = 0.7 + (i + 1) * 1e-4
            elif kind == "gc-lo-edge":
                r["gc"] = 0.3
            elif kind == "gc-hi-edge":
                r["gc"] = 0.7
        ref.append(r)
    # extra reference bins the sample does not have (absent on a third of the cases: reference and sample then hold
    # exactly the same bins, so only their row order can tell coordinate matching from positional matching)
    for c in (case["chroms"][:2] if case.get("extra_ref", True) else []):
        ref.append({"chromosome": c, "start": 10, "end": 400, "gene": "EXTRA", "cls": "t", "log2": 0.25, "spread": 0.05,
                    "depth": 100.0, "gc": 0.5 + len(ref) * 1e-5, "rmask": 0.5 + len(ref) * 1e-5})
    if case.get("ref_targets_only") and case["anti"] == "empty":
        # a target-only reference (WGS / amplicon style): no off-target bins at all
        ref = [r for r in ref if r["cls"] == "t"]
    ref.sort(key=lambda r: (case["chroms"].index(r["chromosome"]), r["start"]))
    tgt, anti = [], []
    for i, b in enumerate(uni):
        if rng.random() < case["drop_frac"]:
            continue
        rr = next((r for r in ref if (r["chromosome"], r["start"]) == (b["chromosome"], b["start"])), None)
        if rr is None:
            continue  # an off-target bin of the universe that a target-only reference does not hold
        null = rng.random() < case["null_frac"]
        base = (rr["log2"] if abs(rr["log2"]) < 4.9 else 0.0) + float(rng.normal(0, case["noise"])) + case["scale"] \
            + (0.8 if b["chromosome"] == case["chroms"][0] else 0.0)
        row = {"chromosome": b["chromosome"], "start": b["start"], "end": b["end"], "gene": b["gene"],
               "log2": -20.0 if null else base, "depth": 0.0 if null else float(2 ** base * 30)}
        if b["cls"] == "t":
            tgt.append(row)
        elif case["anti"] == "full" or (case["anti"] == "subset" and rng.random() < 0.6):
            anti.append(row)
    # precondition (ASSUMPTIONS): fewer than half of a class's bins are null-coverage
    for rows in (tgt, anti):
        nulls = [r for r in rows if r["depth"] == 0]
        if nulls and 2 * len(nulls) >= len(rows):
            for r in nulls:
                r["log2"] = case["scale"] + 0.05
                r["depth"] = float(2 ** r["log2"] * 30)
    if not tgt:
        b = uni[0]
        tgt.append({"chromosome": b["chromosome"], "start": b["start"], "end": b["end"], "gene": b["gene"], "log2": 0.1, "depth": 30.0})
    return tgt, anti, ref


def frames(case, tgt, anti, ref):
    import pandas as pd
    from cnvlib.cnary import CopyNumArray

    rng = np.random.default_rng(case["seed"] + 17)

    def mk(rows, cols, name, permute):
        df = pd.DataFrame({c: [r[c] for r in rows] for c in cols}) if rows else pd.DataFrame(
            {c: pd.Series([], dtype=(str if c in ("chromosome", "gene") else "int64" if c in ("start", "end") else float)) for c in cols})
        if permute and len(df) > 1:
            df = df.iloc[rng.permutation(len(df))].reset_index(drop=True)
        from vk import gen

        return CopyNumArray(gen.relabel(df, gen.spec_for(case, name)), {"sample_id": name})

    scol = ["chromosome", "start", "end", "gene", "log2", "depth"]
    tcol = scol + (["gc"] if case["picard_gc"] else [])
    for r in tgt:
        r.setdefault("gc", 0.5)
    rcol = ["chromosome", "start", "end", "gene", "log2", "depth"] + (["gc"] if case["ref_gc"] else []) + \
           (["rmask"] if case["ref_rmask"] else []) + ["spread"]
    return (mk(tgt, tcol, "samp", "target" in case["perm"]), mk(anti, scol, "samp", "anti" in case["perm"]),
            mk(ref, rcol, "ref", "ref" in case["perm"]))


# ------------------------------------------------------------------ model
def is_null(log2, depth):
    return log2 < -15 or depth == 0


def autosome_like(name):
    n = name[3:] if name.startswith("chr") else name
    return n.isdigit()


def centre_value(rows, vals, skip_low):
    """median of per-chromosome medians over autosomal (or all, if none are named so) non-skipped bins"""
    sel = [i for i, r in enumerate(rows) if not (skip_low and is_null(vals[i], r["depth"]))]
    if any(autosome_like(rows[i]["chromosome"]) for i in sel):
        sel = [i for i in sel if autosome_like(rows[i]["chromosome"])]
    groups = {}
    for i in sel:
        groups.setdefault(rows[i]["chromosome"], []).append(vals[i])
    if not groups:
        return 0.0
    return M.median([M.median(g) for g in groups.values()])


def edge_cov(rows):
    out = [0.0] * len(rows)
    by = {}
    for i, r in enumerate(rows):
        by.setdefault(r["chromosome"], []).append(i)
    for idx in by.values():
        for k, i in enumerate(idx):
            t = rows[i]["end"] - rows[i]["start"]
            loss = INSERT / (2 * t)
            if t < INSERT:
                loss -= (INSERT - t) ** 2 / (2 * INSERT * t)
            gain = 0.0
            for j in ([idx[k - 1]] if k > 0 else []) + ([idx[k + 1]] if k + 1 < len(idx) else []):
                if j == idx[k - 1] and k > 0:
                    gap = rows[i]["start"] - rows[j]["end"]
                else:
                    gap = rows[j]["start"] - rows[i]["end"]
                if gap < INSERT:
                    g = max(0, gap)
                    gn = (INSERT - g) ** 2 / (4 * INSERT * t)
                    if t + g < INSERT:
                        gn -= (INSERT - t - g) ** 2 / (4 * INSERT * t)
                    gain += gn
            out[i] = gain - loss
    return out


def correct(vals, cov):
    """subtract the rolling median of vals ordered by cov; -> (new vals, tie_free)"""
    n = len(vals)
    if n < 2:
        return list(vals), True
    order = sorted(range(n), key=lambda i: cov[i])
    tie_free = all(cov[order[k]] != cov[order[k + 1]] for k in range(n - 1))
    frac = max(0.01, n ** -0.5)
    wing = max(3, int(math.ceil(n * frac * 0.5)))
    wing = min(wing, n - 1)
    seq = [vals[i] for i in order]
    med = M.rolling_median_model(seq, wing)
    out = list(vals)
    for k, i in enumerate(order):
        out[i] = vals[i] - med[k]
    return out, tie_free


def fix_model(case, tgt, anti, ref):
    """-> (rows with model log2, tie_free) in genomic order; raises ValueError for missing / duplicated coordinates."""
    key = lambda r: (r["chromosome"], r["start"], r["end"])
    refmap = {}
    for r in ref:
        if key(r) in refmap:
            raise ValueError("duplicate in reference")
        refmap[key(r)] = r
    tie_free = True
    out = []
    for cls, rows in (("t", tgt), ("a", anti)):
        if not rows:
            continue
        seen = set()
        for r in rows:
            if key(r) in seen:
                raise ValueError("duplicate in sample")
            seen.add(key(r))
            if key(r) not in refmap:
                raise ValueError("missing in reference")
        rows = sorted(rows, key=lambda r: (case["chroms"].index(r["chromosome"]), r["start"], r["end"]))
        keep = []
        for r in rows:
            q = refmap[key(r)]
            bad = q["log2"] < -5 or q["log2"] > 5 or q["spread"] > 1 or q["depth"] == 0
            if case["ref_gc"]:
                bad = bad or q["gc"] > 0.7 or q["gc"] < 0.3
            if not bad:
                keep.append(r)
        vals = [r["log2"] for r in keep]
        c0 = centre_value(keep, vals, skip_low=(cls == "t"))
        vals = [v - c0 for v in vals]
        corrections_on = sum(1 for v in vals if v > -15) > len(vals) // 2
        if corrections_on:
            if case["do_gc"] and case["ref_gc"]:
                vals, tf = correct(vals, [refmap[key(r)]["gc"] for r in keep])
                tie_free &= tf
            if cls == "t" and case["do_edge"]:
                vals, tf = correct(vals, edge_cov(keep))
                tie_free &= tf
            if cls == "a" and case["do_rmask"] and case["ref_rmask"]:
                vals, tf = correct(vals, [refmap[key(r)]["rmask"] for r in keep])
                tie_free &= tf
        for r, v in zip(keep, vals):
            out.append({"chromosome": r["chromosome"], "start": r["start"], "end": r["end"], "gene": r["gene"], "depth": r["depth"],
                        "cls": cls, "pre": v, "log2": v - refmap[key(r)]["log2"], "spread": refmap[key(r)]["spread"],
                        "sample_log2": r["log2"], "ref_log2": refmap[key(r)]["log2"]})
    out.sort(key=lambda r: (case["chroms"].index(r["chromosome"]), r["start"], r["end"]))
    vals = [r["log2"] for r in out]
    c1 = centre_value(out, vals, skip_low=True)
    for r in out:
        r["log2"] -= c1
    return out, tie_free


def any_correction(case):
    return (case["do_gc"] and case["ref_gc"]) or case["do_edge"] or (case["do_rmask"] and case["ref_rmask"] and case["anti"] != "empty")


def nontrivial(case):
    return (case["bad_frac"] > 0 and bool(case["perm"])) or any_correction(case)


def classify(case):
    labs = ["ref:" + ("pooled" if case["pooled"] else "flat"), "anti:" + case["anti"],
            "naming:" + ("chr" if case["chroms"][0].startswith("chr") else "plain")]
    if case["perm"]:
        labs.append("permuted:" + "+".join(case["perm"]))
    if case["negative"]:
        labs.append("negative:" + case["negative"])
    for k in ("do_gc", "do_edge", "do_rmask"):
        if case[k]:
            labs.append(k)
    if not any_correction(case):
        labs.append("corrections-off")
    if case["bad_frac"]:
        labs.append("bad-ref-bins")
    if case["null_frac"]:
        labs.append("null-bins")
    if case["picard_gc"]:
        labs.append("picard-gc-column")
    if not case["negative"]:
        try:
            _m, tf = fix_model(case, *build(case))
            labs.append("model-compared(tie-free)" if tf else "covariate-ties(model-skipped)")
        except ValueError:
            pass
    return labs


def known(case, v):
    return None


def _rows(cna):
    cols = cna.data.columns
    return [(r.chromosome, int(r.start), int(r.end), r.gene, float(r.log2), float(r.weight) if "weight" in cols else float("nan"))
            for r in cna.data.itertuples(index=False)]


def check_case(case):
    from cnvlib import fix

    out = []
    tgt, anti, ref = build(case)

    def bad(clause, detail):
        out.append({"clause": clause, "detail": f"{detail}; do_gc={case['do_gc']} do_edge={case['do_edge']} do_rmask={case['do_rmask']} "
                    f"ref_gc={case['ref_gc']} ref_rmask={case['ref_rmask']} pooled={case['pooled']} anti={case['anti']} perm={case['perm']} "
                    f"targets={len(tgt)} antitargets={len(anti)} seed={case['seed']}"})

    def run(c, t, a, r):
        tf, af, rf = frames(c, t, a, r)
        before = [x.data.copy() for x in (tf, af, rf)]
        res = fix.do_fix(tf, af, rf, do_gc=c["do_gc"], do_edge=c["do_edge"], do_rmask=c["do_rmask"])
        for x, b, nm in zip((tf, af, rf), before, ("target", "antitarget", "reference")):
            if not x.data.equals(b):
                bad("input-modified", f"do_fix changed its {nm} input")
        return res

    # ---- negative cases: an error is required
    if case["negative"]:
        t2, a2, r2 = [dict(x) for x in tgt], [dict(x) for x in anti], [dict(x) for x in ref]
        if case["negative"] == "missing":
            victim = t2[len(t2) // 2]
            r2 = [x for x in r2 if (x["chromosome"], x["start"], x["end"]) != (victim["chromosome"], victim["start"], victim["end"])]
        elif case["negative"] == "missing-end":
            # same chromosome and start as a reference bin, another end: by (chromosome, start, end) it is absent
            t2[len(t2) // 2]["end"] += 1
        elif case["negative"] == "dup-sample":
            t2.insert(len(t2) // 2, dict(t2[len(t2) // 2]))
        else:
            k = next(i for i, x in enumerate(r2) if any((x["chromosome"], x["start"]) == (y["chromosome"], y["start"]) for y in t2))
            r2.insert(k, dict(r2[k]))
        try:
            run(case, t2, a2, r2)
        except ValueError:
            pass
        except Exception as exc:  # noqa: BLE001
            bad("negative:" + case["negative"], f"{type(exc).__name__} instead of a clean refusal: {exc}")
        else:
            bad("negative:" + case["negative"], "do_fix accepted the input without an error")
        return out

    model, tie_free = fix_model(case, tgt, anti, ref)
    sorted_case = dict(case, perm=[])
    res = run(case, tgt, anti, ref)
    got = _rows(res)
    want_keys = [(r["chromosome"], r["start"], r["end"]) for r in model]
    got_keys = [g[:3] for g in got]
    if sorted(got_keys) != sorted(want_keys):
        miss = [k for k in want_keys if k not in got_keys][:3]
        extra = [k for k in got_keys if k not in want_keys][:3]
        bad("bins", f"{len(got_keys)} bins emitted, {len(want_keys)} expected; missing {miss}, unexpected {extra}")
        return out
    if got_keys != want_keys:
        k = next(i for i, (a, b) in enumerate(zip(got_keys, want_keys)) if a != b)
        bad("order", f"output not in genomic order at row {k}: {got_keys[k]} (expected {want_keys[k]})")
        return out
    if not got:
        return out
    if any(g[3] != m["gene"] for g, m in zip(got, model)):
        bad("row-identity", "gene names no longer belong to their coordinates")
    # ---- values
    if not any_correction(case):
        for cls in ("t", "a"):
            d = [g[4] - (m["sample_log2"] - m["ref_log2"]) for g, m in zip(got, model) if m["cls"] == cls]
            if d and max(d) - min(d) > 1e-9:
                bad("class-constant", f"class {cls}: output - (sample - reference) ranges over [{min(d)!r}, {max(d)!r}]")
    if tie_free:
        for g, m in zip(got, model):
            if abs(g[4] - m["log2"]) > 1e-9 * max(1.0, abs(m["log2"])):
                bad("model", f"{g[:3]} ({'target' if m['cls'] == 't' else 'antitarget'}): log2 {g[4]!r}, model {m['log2']!r} "
                             f"(sample {m['sample_log2']!r}, reference {m['ref_log2']!r})")
                break
    # ---- centred
    vals = [g[4] for g in got]
    c = centre_value(model, vals, skip_low=True)
    if abs(c) > 1e-9:
        bad("centred", f"median of the autosomal chromosome medians (non-null bins) is {c!r}")
    # ---- weights
    ws = [g[5] for g in got]
    # a class none of whose emitted bins has coverage gives no variance estimate: its weights are undefined, not asserted
    usable = {cls: sum(1 for g, m in zip(got, model) if m["cls"] == cls and not is_null(g[4], m["depth"])) for cls in ("t", "a")}
    wbad = [w for w, m in zip(ws, model) if usable[m["cls"]] > 0 and not (1e-4 - 1e-15 <= w <= 1.0)]
    if wbad:
        bad("weight:range", f"weights outside [0.0001, 1]: {wbad[:4]}")
    for cls in ("t", "a"):
        items = [(m["end"] - m["start"], m["spread"], w) for m, w in zip(model, ws) if m["cls"] == cls]
        by_spread, by_size = {}, {}
        for size, sp, w in items:
            by_spread.setdefault(sp, []).append((size, w))
            by_size.setdefault(size, []).append((sp, w))
        for sp, lst in by_spread.items():
            lst.sort()
            for (s1, w1), (s2, w2) in zip(lst, lst[1:]):
                if s2 > s1 and w2 < w1 - 1e-12:
                    bad("weight:size-monotone", f"class {cls}, spread {sp}: size {s1} has weight {w1!r} but size {s2} has {w2!r}")
                    break
        for size, lst in by_size.items():
            lst.sort()
            for (p1, w1), (p2, w2) in zip(lst, lst[1:]):
                if p2 > p1 and w2 > w1 + 1e-12:
                    bad("weight:spread-monotone", f"class {cls}, size {size}: spread {p1} has weight {w1!r} but spread {p2} has {w2!r}")
                    break
    # ---- invariances
    # The weights go through biweight_midvariance, which switches formula when the residuals sum to exactly 0.0: for a class
    # whose inlier residuals are symmetric (e.g. two bins per chromosome, outliers masked) rounding noise decides the branch. That is a
    # floating-point tie (DESIGN 2.6), so weights of such a class are not compared across variants; log2 always is.
    sym = set()
    for cls in ("t", "a"):
        groups = {}
        for g, m in zip(got, model):
            if m["cls"] == cls and not is_null(g[4], m["depth"]):
                groups.setdefault(m["chromosome"], []).append(g[4])
        res = [v - M.median(vs) for vs in groups.values() for v in vs]
        # the restated estimator reports both branches when the *inlier* weights sum to zero within rounding
        if M.midvariance_branch_tied(res):
            sym.add(cls)
    cls_of = [m["cls"] for m in model]

    def same(a, b, offset=0):
        if len(a) != len(b):
            return False
        for k, (x, y) in enumerate(zip(a, b)):
            if x[:4] != y[:4] or abs(x[4] - y[4]) > 1e-9 * max(1.0, abs(y[4])):
                return False
            if cls_of[(k + offset) % len(cls_of)] in sym:
                continue
            if not (abs(x[5] - y[5]) <= 1e-9 or (math.isnan(x[5]) and math.isnan(y[5]))):
                return False
        return True

    if case["perm"]:
        base = _rows(run(sorted_case, tgt, anti, ref))
        if not same(got, base):
            k = next((i for i, (x, y) in enumerate(zip(got, base)) if not same([x], [y], i)), None)
            bad("permutation-invariance", f"rows permuted ({'+'.join(case['perm'])}): " +
                (f"{len(got)} vs {len(base)} rows" if k is None else f"row {k}: {got[k]} vs {base[k]} with sorted inputs"))
    if case["null_frac"] == 0.0 and case["scale"] != 0.0:
        t3 = [dict(r, log2=r["log2"] - case["scale"], depth=r["depth"] * 2 ** (-case["scale"])) for r in tgt]
        a3 = [dict(r, log2=r["log2"] - case["scale"], depth=r["depth"] * 2 ** (-case["scale"])) for r in anti]
        alt = _rows(run(case, t3, a3, ref))
        if not same(got, alt):
            k = next((i for i, (x, y) in enumerate(zip(got, alt)) if not same([x], [y], i)), None)
            bad("rescaling-invariance", f"sample depth rescaled by 2^{-case['scale']}: " +
                (f"{len(got)} vs {len(alt)} rows" if k is None else f"row {k}: {got[k]} vs {alt[k]}"))
    # ---- command-line tier (a quarter of the cases): `cnvkit.py fix` on the written tables = do_fix on the same files
    from vk import gen

    if gen.pick(case, "cli", 4) == 0 and not out:
        import os
        import shutil
        import tempfile

        from skgenome import tabio
        from vk import cli

        d = tempfile.mkdtemp(prefix="vk04.")
        try:
            tf, af, rf = frames(case, tgt, anti, ref)
            paths = [os.path.join(d, n) for n in ("S.targetcoverage.cnn", "S.antitargetcoverage.cnn", "ref.cnn")]
            for arr, pth in zip((tf, af, rf), paths):
                tabio.write(arr, pth)
            diff = cli.fix_diff(paths[0], paths[1], paths[2], d, case["do_gc"], case["do_edge"], case["do_rmask"])
            if diff:
                bad("cli:fix", diff)
        finally:
            shutil.rmtree(d, ignore_errors=True)
    return out
