"""C09 - coverage reports mean per-base depth of the counted reads in every bin."""
import functools
import math
import os
import shutil
import tempfile

import numpy as np
from hypothesis import strategies as st

ID = "C09"
LEVEL = "exploration"
RULE = (
    "Hypothesis draws a BAM plan (1..3 contigs of 200..20 000 bases, one case in six a 3e8-base contig with 1e8-base bins and 1..8 reads; 0..5000 reads placed by numpy default_rng(seed) with starts "
    "biased to straddle bin edges and contig ends; read length 30..150 with optional soft clips; flags drawn from {reverse, "
    "paired, duplicate, secondary, supplementary, QC-fail, unmapped-but-placed}; MAPQ 0..60; a few same-name pairs; optionally "
    "I/D/N operations) and a BED file (3, 4 or 6 columns; abutting, overlapping, nested, zero-width and beyond-contig-end bins; "
    "sorted or not; 1..60 lines, > 5000 lines once per thorough shard), min_mapq in {0,1,20,30,60}, both algorithms, processes in "
    "{1,2,3,16} and BED chunk sizes {1,2,7,100,5000}. The BAM is written with pysam and indexed. Oracle: a read-by-read count of "
    "aligned reference positions (M/=/X) of counted reads inside each bin divided by the bin length; log2(depth) or (0, -20); "
    "pileup on indel-free reads and --count on all reads must equal it; parallel/chunked tables must equal the serial table. "
    "Non-trivial = a bin partly covered by a counted read that also extends outside it plus a filtered read overlapping a bin; "
    "distinct = distinct case JSON."
)
CLI_SHARE = 4  # one case in CLI_SHARE also goes through the command line (vk/cli.py)
QUICK = {"examples": 320, "shards": 16, "budget_s": 400, "shrink": False}
THOROUGH = {"examples": 4800, "shards": 16, "budget_s": 3000}
ASSUMPTIONS = [
    "the pileup algorithm is compared with the model on indel-free BAMs only (samtools bedcov counts deleted bases as covered); --count is compared always",
    "row order: the pileup table keeps BED order, --count sorts by coordinate; across algorithms rows are compared as a coordinate-keyed multiset",
    "worker scheduling is whatever the OS gives: serial vs parallel is a differential, not a controlled interleaving",
    "BED names are ordinary labels (not NA-like); every BED contig exists in the BAM; bins have start <= end",
    "CRAM input and --fasta are not exercised",
]
FLAG = {"paired": 1, "unmapped": 4, "reverse": 16, "secondary": 256, "qcfail": 512, "duplicate": 1024, "supplementary": 2048}
NULL_LOG2 = -20.0


@st.composite
def strategy(draw):
    ncont = draw(st.integers(1, 3))
    contigs = [[["chr1", "chr2", "chrX"][i], draw(st.sampled_from([200, 1000, 5000, 20000]))] for i in range(ncont)]
    bins = []
    for name, L in contigs:
        n = draw(st.one_of(st.integers(0, 4), st.integers(1, 20)))
        pos = draw(st.integers(0, max(0, L // 4)))
        for _ in range(n):
            rel = draw(st.sampled_from(["gap", "gap", "abut", "overlap", "nested", "zero", "end"]))
            size = draw(st.one_of(st.integers(1, 30), st.integers(20, 400), st.integers(100, 3000)))
            if rel == "gap":
                s = pos + draw(st.integers(1, 300))
            elif rel == "abut":
                s = pos
            elif rel == "overlap":
                s = max(0, pos - draw(st.integers(1, 50)))
            elif rel == "nested" and bins and bins[-1][0] == name and bins[-1][2] - bins[-1][1] >= 2:
                s = draw(st.integers(bins[-1][1], bins[-1][2] - 1))
                size = draw(st.integers(1, bins[-1][2] - s))
            elif rel == "zero":
                s, size = pos + draw(st.integers(0, 50)), 0
            else:
                s = max(0, L - draw(st.integers(1, 100)))
                size = draw(st.integers(1, 300))  # may run past the contig end
            if s > L + 50:
                break
            e = s + size
            bins.append([name, s, e, draw(st.sampled_from(["GENE%d" % len(bins), "G", "Antitarget", "-", "a,b"]))])
            pos = max(pos, e)
    if not bins:
        bins.append([contigs[0][0], 10, 110, "G"])
    # a chromosome-sized contig with one or two bins of 10^8 bases and a handful of reads: depths far below one read per
    # million bases (seeded change C09h clipped log2 at -20 instead of reporting log2(depth) there)
    sparse = draw(st.integers(0, 5)) == 0
    if sparse:
        contigs[0][1] = 300000000
        for _ in range(draw(st.integers(1, 2))):
            s = draw(st.sampled_from([0, 5000, 160000000]))
            bins.append([contigs[0][0], s, s + draw(st.sampled_from([100000000, 139000050, 299990000 - s])), "WIDE"])
    order = list(range(len(bins)))
    if draw(st.integers(0, 3)) == 0:
        order = draw(st.permutations(order))
    return {
        "contigs": contigs, "bins": [bins[i] for i in order], "bed_cols": draw(st.sampled_from([3, 4, 4, 6, 7])),
        "nreads": draw(st.integers(1, 8)) if sparse else draw(st.one_of(st.integers(0, 30), st.integers(0, 600), st.integers(0, 5000))),
        "seed": draw(st.integers(0, 2 ** 31)),
        "readlen": sorted([draw(st.integers(30, 150)), draw(st.integers(30, 150))]),
        "p_flag": draw(st.sampled_from([0.0, 0.05, 0.2])), "p_clip": draw(st.sampled_from([0.0, 0.3])),
        "indels": draw(st.integers(0, 3)) == 0, "p_lowmapq": draw(st.sampled_from([0.0, 0.3])),
        "min_mapq": draw(st.sampled_from([0, 0, 1, 20, 30, 60])),
        "procs": draw(st.sampled_from([1, 1, 1, 2, 3, 16])), "chunk": draw(st.sampled_from([1, 2, 7, 100, 5000])),
        "big_bed": False, "unplaced": draw(st.sampled_from([0, 0, 2])),
    }


def enumerate_cases(tier):
    """One BED of more than 5000 lines per thorough shard (16) so the default chunking is crossed without substitution;
    one in the quick tier."""
    n = 16 if tier == "thorough" else 1
    for k in range(n):
        bins = []
        for i in range(5100 + 37 * k):
            s = (i * 3) % 19000
            bins.append(["chr1", s, s + 1 + (i % 17), "B%d" % i])
        yield {"contigs": [["chr1", 20000]], "bins": bins, "bed_cols": 4, "nreads": 3000, "seed": 1000 + k, "readlen": [50, 100],
               "p_flag": 0.1, "p_clip": 0.2, "indels": False, "p_lowmapq": 0.2, "min_mapq": [0, 20][k % 2], "procs": [2, 3, 16][k % 3],
               "chunk": 5000, "big_bed": True}


# ------------------------------------------------------------------ builders
def build_reads(case):
    """-> list of dicts sorted by (contig index, pos)."""
    rng = np.random.default_rng(case["seed"])
    contigs = case["contigs"]
    edges = {name: sorted({p for b in case["bins"] if b[0] == name for p in (b[1], b[2])} | {0, L})
             for name, L in contigs}
    reads = []
    lo, hi = case["readlen"]
    for i in range(case["nreads"]):
        ci = int(rng.integers(0, len(contigs)))
        name, L = contigs[ci]
        rl = int(rng.integers(lo, hi + 1))
        clip_l = int(rng.integers(1, 10)) if rng.random() < case["p_clip"] else 0
        clip_r = int(rng.integers(1, 10)) if rng.random() < case["p_clip"] else 0
        body = max(1, rl - clip_l - clip_r)
        cigar = []
        if clip_l:
            cigar.append([4, clip_l])
        if case["indels"] and body >= 12 and rng.random() < 0.5:
            a = int(rng.integers(3, body - 6))
            op = int(rng.choice([1, 2, 3]))  # I, D, N
            ln = int(rng.integers(1, 6)) if op != 3 else int(rng.integers(5, 60))
            if op == 1:
                ln = min(ln, body - a - 3)
                cigar += [[0, a], [1, ln], [0, body - a - ln]]
            else:
                cigar += [[0, a], [op, ln], [0, body - a]]
        else:
            cigar.append([0, body])
        if clip_r:
            cigar.append([4, clip_r])
        reflen = sum(n for op, n in cigar if op in (0, 2, 3, 7, 8))
        if reflen > L:
            continue
        if rng.random() < 0.6:
            edge = int(rng.choice(edges[name]))
            pos = edge - int(rng.integers(0, reflen + 1))
        else:
            pos = int(rng.integers(0, L))
        pos = max(0, min(pos, L - reflen))
        flag = 0
        for f in ("reverse", "paired", "duplicate", "secondary", "supplementary", "qcfail", "unmapped"):
            p = 0.4 if f in ("reverse", "paired") else case["p_flag"]
            if rng.random() < p:
                flag |= FLAG[f]
        mapq = int(rng.integers(0, 20)) if rng.random() < case["p_lowmapq"] else int(rng.choice([20, 29, 30, 59, 60, 60, 60]))
        qname = "pair%d" % (i // 2) if rng.random() < 0.1 else "r%d" % i
        reads.append({"ci": ci, "pos": pos, "cigar": cigar, "flag": flag, "mapq": mapq, "name": qname, "len": sum(n for op, n in cigar if op in (0, 1, 4, 7, 8))})
    reads.sort(key=lambda r: (r["ci"], r["pos"]))
    return reads


def write_bam(path, case, reads):
    import pysam

    header = {"HD": {"VN": "1.6", "SO": "coordinate"}, "SQ": [{"SN": n, "LN": L} for n, L in case["contigs"]]}
    with pysam.AlignmentFile(path, "wb", header=header) as out:
        for r in reads:
            a = pysam.AlignedSegment()
            a.query_name = r["name"]
            # (in a third of the files the reads carry uncalled bases: an aligned N is an aligned base like any other -
            # seeded change C09q tallied the in-bin bases per nucleotide and so lost the Ns)
            seq = "A" * r["len"]
            if case["seed"] % 3 == 0 and r["len"] > 8:
                k = (r["pos"] * 7 + r["len"]) % (r["len"] - 6)
                seq = seq[:k] + "N" * 6 + seq[k + 6:]
            a.query_sequence = seq
            a.flag = r["flag"]
            a.reference_id = r["ci"]
            a.reference_start = r["pos"]
            a.mapping_quality = r["mapq"]
            a.cigar = [tuple(x) for x in r["cigar"]]
            a.next_reference_id = r["ci"] if r["flag"] & 1 else -1
            a.next_reference_start = r["pos"] if r["flag"] & 1 else -1
            a.template_length = 0
            a.query_qualities = pysam.qualitystring_to_array("I" * r["len"])
            out.write(a)
        # reads without contig or position (an unaligned pair) close a coordinate-sorted BAM, as samtools sort leaves
        # them; they are never counted (seeded change C09p took the step to tid -1 for "not sorted" in small files)
        for k in range(case.get("unplaced", 0)):
            a = pysam.AlignedSegment()
            a.query_name = "unplaced%d" % (k // 2)
            a.query_sequence = "A" * 50
            a.flag = 4 | 1 | 8 | (64 if k % 2 == 0 else 128)
            a.reference_id = -1
            a.reference_start = -1
            a.mapping_quality = 0
            a.next_reference_id = -1
            a.next_reference_start = -1
            a.query_qualities = pysam.qualitystring_to_array("I" * 50)
            out.write(a)
    pysam.index(path)


def write_bed(path, case):
    with open(path, "w") as fh:
        for i, (c, s, e, g) in enumerate(case["bins"]):
            cols = [c, str(s), str(e)]
            if case["bed_cols"] >= 4:
                cols.append(g)
            if case["bed_cols"] >= 6:
                cols += ["0", "+-"[i % 2]]
            if case["bed_cols"] >= 7:
                cols.append("extra%d" % i)
            fh.write("\t".join(cols) + "\n")


def aligned_positions(r):
    out = []
    p = r["pos"]
    for op, n in r["cigar"]:
        if op in (0, 7, 8):
            out.append((p, p + n))
            p += n
        elif op in (2, 3):
            p += n
    return out


def counted(r, min_mapq):
    return not (r["flag"] & (FLAG["duplicate"] | FLAG["secondary"] | FLAG["unmapped"] | FLAG["qcfail"])) and r["mapq"] >= min_mapq


def depth_model(case, reads):
    blocks = {}
    for r in reads:
        if counted(r, case["min_mapq"]):
            blocks.setdefault(case["contigs"][r["ci"]][0], []).extend(aligned_positions(r))
    out = []
    for c, s, e, g in case["bins"]:
        tot = 0
        for a, b in blocks.get(c, []):
            lo, hi = max(a, s), min(b, e)
            if hi > lo:
                tot += hi - lo
        depth = tot / (e - s) if e > s else 0.0
        out.append((c, s, e, g if case["bed_cols"] >= 4 else "-", depth, math.log2(depth) if depth > 0 else NULL_LOG2))
    return out


def _features(case):
    reads = build_reads(case)
    partial = filtered = False
    for c, s, e, _g in case["bins"]:
        if e <= s:
            continue
        for r in reads:
            if case["contigs"][r["ci"]][0] != c:
                continue
            blocks = aligned_positions(r)
            if not blocks:
                continue
            a, b = blocks[0][0], blocks[-1][1]
            if a < e and b > s:
                if counted(r, case["min_mapq"]):
                    if a < s or b > e:
                        partial = True
                else:
                    filtered = True
        if partial and filtered:
            break
    return partial, filtered


def nontrivial(case):
    if case["big_bed"]:
        return True
    p, f = _features(case)
    return p and f


def classify(case):
    labs = ["bed%d" % case["bed_cols"], "procs:%d" % case["procs"], "mapq:%d" % case["min_mapq"]]
    if case["indels"]:
        labs.append("indels")
    if case["nreads"] == 0:
        labs.append("no-reads")
    if any(b[1] == b[2] for b in case["bins"]):
        labs.append("zero-width-bin")
    L = dict(map(tuple, case["contigs"]))
    if any(b[2] > L[b[0]] for b in case["bins"]):
        labs.append("bin-past-contig-end")
    if case["bins"] != sorted(case["bins"], key=lambda b: ([c for c, _ in case["contigs"]].index(b[0]), b[1], b[2])):
        labs.append("unsorted-bed")
    if case["big_bed"]:
        labs.append("bed>5000-lines")
    if any(b[2] - b[1] >= 100000000 for b in case["bins"]):
        labs.append("bin>=1e8-bases")
    if case["procs"] > 1 and case["chunk"] < len(case["bins"]):
        labs.append("multi-chunk")
    return labs


def known(case, v):
    return None


def _rows(cna):
    return [(r.chromosome, int(r.start), int(r.end), r.gene, float(r.depth), float(r.log2)) for r in cna.data.itertuples(index=False)]


def _cmp(got, want, tol=1e-9):
    """element-wise comparison of row tuples; -> index of the first mismatch or None"""
    if len(got) != len(want):
        return -1
    for i, (g, w) in enumerate(zip(got, want)):
        # (written so that a NaN on either side is a mismatch: seeded change C09o reported depth NaN on zero-width bins)
        if g[:4] != w[:4] or not abs(g[4] - w[4]) <= tol * max(1.0, abs(w[4])) or not abs(g[5] - w[5]) <= tol * max(1.0, abs(w[5])):
            return i
    return None


def check_case(case):
    from cnvlib import coverage, parallel

    out = []
    reads = build_reads(case)

    def bad(clause, detail):
        out.append({"clause": clause, "detail": f"{detail}; contigs={case['contigs']} bins={case['bins'][:6]} bed_cols={case['bed_cols']} "
                    f"nreads={len(reads)} min_mapq={case['min_mapq']} procs={case['procs']} chunk={case['chunk']} seed={case['seed']}"})

    d = tempfile.mkdtemp(prefix="vk09.")
    orig_chunks = coverage.to_chunks
    try:
        bam = os.path.join(d, "s.bam")
        bed = os.path.join(d, "b.bed")
        write_bam(bam, case, reads)
        write_bed(bed, case)
        model = depth_model(case, reads)
        order = {name: i for i, (name, _L) in enumerate(case["contigs"])}
        model_sorted = sorted(model, key=lambda r: (order[r[0]], r[1], r[2]))
        res = {}
        for by_count in (False, True):
            name = "count" if by_count else "pileup"
            try:
                cna = coverage.do_coverage(bed, bam, by_count=by_count, min_mapq=case["min_mapq"], processes=1)
            except Exception as exc:  # noqa: BLE001
                if not reads:
                    continue  # a BAM without any read: undefined (read length cannot be determined)
                bad(f"{name}:error", f"{type(exc).__name__}: {exc}")
                continue
            rows = _rows(cna)
            res[name] = rows
            if by_count:
                got = sorted(rows, key=lambda r: (order[r[0]], r[1], r[2]))
                if [r[:3] for r in rows] != [r[:3] for r in got]:
                    pass  # order of --count output is by coordinate; ties left open
                k = _cmp(sorted(got, key=lambda r: (order[r[0]], r[1], r[2], r[3])),
                         sorted(model_sorted, key=lambda r: (order[r[0]], r[1], r[2], r[3])))
            else:
                k = _cmp(rows, model) if not case["indels"] else _cmp([r[:4] + (0, 0) for r in rows], [r[:4] + (0, 0) for r in model])
            if k is not None:
                if k == -1:
                    bad(f"{name}:rows", f"{len(rows)} rows for {len(model)} BED lines")
                else:
                    g = (sorted(rows, key=lambda r: (order[r[0]], r[1], r[2], r[3])) if by_count else rows)[k]
                    w = (sorted(model, key=lambda r: (order[r[0]], r[1], r[2], r[3])) if by_count else model)[k]
                    bad(f"{name}:depth" if g[:4] == w[:4] else f"{name}:row-identity", f"row {k}: got {g}, read-by-read model {w}")
        if case["procs"] > 1:
            coverage.to_chunks = functools.partial(parallel.to_chunks, chunk_size=case["chunk"])
            for by_count in (False, True):
                name = "count" if by_count else "pileup"
                if name not in res:
                    continue
                try:
                    cna = coverage.do_coverage(bed, bam, by_count=by_count, min_mapq=case["min_mapq"], processes=case["procs"])
                except Exception as exc:  # noqa: BLE001
                    bad(f"{name}:parallel-error", f"{type(exc).__name__}: {exc}")
                    continue
                rows = _rows(cna)
                k = _cmp(rows, res[name], tol=0.0)
                if k is not None:
                    bad(f"{name}:parallel-differs", f"processes={case['procs']} chunk={case['chunk']}: "
                        + (f"{len(rows)} rows vs {len(res[name])} serial" if k == -1 else f"row {k}: {rows[k]} vs serial {res[name][k]}"))
        # ---- command-line tier (a quarter of the cases with reads): `cnvkit.py coverage` on the same BAM and BED =
        # do_coverage (serial) on the same files
        from vk import gen

        if gen.pick(case, "cli", 4) == 0 and not out and reads and not case["big_bed"]:
            from vk import cli

            coverage.to_chunks = orig_chunks
            for by_count in (False, True):
                diff = cli.coverage_diff(bam, bed, d, by_count, case["min_mapq"], min(case["procs"], 3), tag="o%d" % by_count)
                if diff:
                    bad("cli:coverage", diff)
                    break
    finally:
        coverage.to_chunks = orig_chunks
        shutil.rmtree(d, ignore_errors=True)
    return out
