"""C13 - access lists exactly the non-N runs of the genome, joined and excluded as asked."""
import os
import shutil
import tempfile

from hypothesis import strategies as st

from vk import models as M

ID = "C13"
LEVEL = "exploration"
RULE = (
    "Hypothesis draws FASTA texts: 1..4 records (names from a fixed table of canonical / alt / random / Un / HLA / EBV / "
    "mitochondrial examples, optional description), each a list of runs (class N, n, ACGT, acgt; length 0..200, half of the "
    "boundaries snapped to a multiple of the line width so runs start, end or straddle line breaks), line width 1..80, last "
    "line with or without newline, empty records; 0..3 exclude BED files (rows overlapping, nested, touching run edges, on "
    "absent contigs, beyond the sequence end); min_gap_size in 0..300 or None; skip_noncanonical on/off. Oracle: a per-base "
    "character model (accessible = char != 'N', minus excluded bases, maximal runs, neighbours joined when gap < min_gap) "
    "compared exactly per sequence, get_regions alone compared with the un-joined runs, plus the direct clauses (non-empty, "
    "sorted, separated by >= 1 base, no N / excluded base outside a bridged gap). Non-trivial = a record with >= 2 accessible "
    "runs one of whose boundaries is at a line break, or an exclusion cutting a run, or a join; distinct = distinct case JSON."
)
CLI_SHARE = 4  # one case in CLI_SHARE also goes through the command line (vk/cli.py)
QUICK = {"examples": 4000, "shards": 16, "budget_s": 300}
THOROUGH = {"examples": 48000, "shards": 16, "budget_s": 2400}
FUZZ = {"seconds": 90, "jobs": 8, "instrument": ["cnvlib.access", "cnvlib.antitarget", "skgenome.subtract", "skgenome.merge"]}
ASSUMPTIONS = [
    "no blank lines inside a record and record names unique (valid faidx FASTA)",
    "sequence alphabet N, n, ACGT, acgt as in the quantifier; only the capital N is inaccessible ('characters other than N')",
    "canonical / non-canonical ground truth is the fixed example table in vk/gen.py (categories named in the statement), not the package regex",
    "the order of regions between different sequences is not asserted; within a sequence it is",
]

CANON = ["chr1", "chr2", "chr10", "chr22", "chrX", "chrY", "1", "7", "X", "Y", "22"]
NONCANON = ["chrUn_gl000220", "chr1_gl000191_random", "chr6_apd_hap1", "chr1_KI270762v1_alt", "chrEBV", "chrM", "MT",
            "HLA-A*01:01", "chrUn_KI270302v1", "chr4_GL000008v2_random", "chr17_ctg5_hap1"]
CLASSES = ["N", "n", "U", "l"]


@st.composite
def strategy(draw):
    width = draw(st.one_of(st.integers(1, 8), st.integers(1, 80), st.sampled_from([50, 60, 70, 80])))
    nrec = draw(st.integers(1, 4))
    names = draw(st.lists(st.sampled_from(CANON + NONCANON), min_size=nrec, max_size=nrec, unique=True))
    records = []
    for name in names:
        nruns = draw(st.one_of(st.integers(0, 4), st.integers(2, 12), st.integers(2, 12)))
        runs = []
        pos = 0
        prev = None
        for _ in range(nruns):
            cls = draw(st.sampled_from([c for c in CLASSES if c != prev] if draw(st.integers(0, 7)) else CLASSES))
            if draw(st.booleans()):
                k = draw(st.integers(0, 3))
                ln = k * width + (-pos) % width
            else:
                ln = draw(st.one_of(st.integers(0, 6), st.integers(0, 200)))
            ln = min(ln, 200)
            runs.append([cls, ln])
            pos += ln
            prev = cls
        records.append({"name": name, "desc": draw(st.sampled_from(["", "", " dna:chromosome", "\tAC:CM000663.2 gi:568336023"])),
                        "runs": runs})
    lens = {r["name"]: sum(x[1] for x in r["runs"]) for r in records}
    bounds = {r["name"]: _boundaries(r["runs"]) for r in records}
    excludes = []
    for _ in range(draw(st.sampled_from([0, 0, 1, 1, 2, 3]))):
        rows = []
        for _ in range(draw(st.integers(0, 6))):
            chrom = draw(st.sampled_from(names + ["chr9"]))
            L = lens.get(chrom, 50)
            pts = bounds.get(chrom, [0])
            rel = draw(st.sampled_from(["free", "edge", "nested", "dup", "beyond"]))
            if rel in ("nested", "dup") and rows and rows[-1][0] == chrom:
                ps, pe = rows[-1][1], rows[-1][2]
                if rel == "dup" or pe - ps < 2:
                    s, e = ps, pe
                else:
                    s = draw(st.integers(ps, pe - 1))
                    e = draw(st.integers(s + 1, pe))
            elif rel == "edge" and pts:
                s = draw(st.sampled_from(pts))
                e = draw(st.one_of(st.sampled_from(pts), st.integers(s, s + 20)))
                if e < s:
                    s, e = e, s
                if e == s:
                    e = s + draw(st.integers(1, 5))
            elif rel == "beyond":
                s = draw(st.integers(max(0, L - 5), L + 5))
                e = s + draw(st.integers(1, 30))
            else:
                s = draw(st.integers(0, max(0, L)))
                e = s + draw(st.integers(1, 40))
            rows.append([chrom, s, e])
        rows.sort(key=lambda r: (names.index(r[0]) if r[0] in names else 99, r[1], r[2]))
        excludes.append(rows)
    return {"width": width, "final_newline": draw(st.booleans()), "records": records, "excludes": excludes,
            "min_gap": draw(st.one_of(st.none(), st.integers(0, 6), st.integers(0, 300))),
            "skip": draw(st.booleans())}


def _boundaries(runs):
    pts, pos = [0], 0
    for _c, ln in runs:
        pos += ln
        pts.append(pos)
    return sorted(set(pts))


def sequence(runs):
    out = []
    pos = 0
    for cls, ln in runs:
        if cls == "N":
            out.append("N" * ln)
        elif cls == "n":
            out.append("n" * ln)
        else:
            s = "".join("ACGT"[(pos + i) % 4] for i in range(ln))
            out.append(s if cls == "U" else s.lower())
        pos += ln
    return "".join(out)


def fasta_text(case):
    lines = []
    w = case["width"]
    for r in case["records"]:
        lines.append(">" + r["name"] + r["desc"])
        seq = sequence(r["runs"])
        for i in range(0, len(seq), w):
            lines.append(seq[i:i + w])
    text = "\n".join(lines)
    if case["final_newline"]:
        text += "\n"
    return text


def runs_of(mask):
    out, start = [], None
    for i, v in enumerate(mask):
        if v and start is None:
            start = i
        elif not v and start is not None:
            out.append((start, i))
            start = None
    if start is not None:
        out.append((start, len(mask)))
    return out


def model(case):
    """-> (raw runs per record, final regions per record, per-record base masks)"""
    raw, final, masks = {}, {}, {}
    for r in case["records"]:
        seq = sequence(r["runs"])
        acc = [c != "N" for c in seq]
        raw[r["name"]] = runs_of(acc)
        ok = list(acc)
        for rows in case["excludes"]:
            for chrom, s, e in rows:
                if chrom == r["name"]:
                    for i in range(max(0, s), min(e, len(ok))):
                        ok[i] = False
        masks[r["name"]] = ok
        if case["skip"] and r["name"] in NONCANON:
            continue
        rr = runs_of(ok)
        joined = []
        mg = case["min_gap"] or 0
        for s, e in rr:
            if joined and s - joined[-1][1] < mg:
                joined[-1] = (joined[-1][0], e)
            else:
                joined.append((s, e))
        if joined:
            final[r["name"]] = joined
    return raw, final, masks


def _linebreak_boundary(case):
    w = case["width"]
    for r in case["records"]:
        seq = sequence(r["runs"])
        rr = runs_of([c != "N" for c in seq])
        if len(rr) >= 2 and any((s % w == 0 and s > 0) or (e % w == 0 and e < len(seq)) for s, e in rr):
            return True
    return False


def _cut(case):
    raw, _final, masks = model(case)
    for name, rr in raw.items():
        for s, e in rr:
            seg = masks[name][s:e]
            if any(seg) and not all(seg):
                return True
    return False


def _joined(case):
    _raw, final, masks = model(case)
    for name, rr in final.items():
        for s, e in rr:
            if not all(masks[name][s:e]):
                return True
    return False


def nontrivial(case):
    return _linebreak_boundary(case) or _cut(case) or _joined(case)


def classify(case):
    labs = []
    if _linebreak_boundary(case):
        labs.append("run-boundary-at-line-break")
    if _cut(case):
        labs.append("exclusion-cuts-run")
    if _joined(case):
        labs.append("join")
    if any(not r["runs"] or sum(x[1] for x in r["runs"]) == 0 for r in case["records"]):
        labs.append("empty-record")
    if case["skip"] and any(r["name"] in NONCANON for r in case["records"]):
        labs.append("noncanonical-dropped")
    w = case["width"]
    for r in case["records"]:
        seq = sequence(r["runs"])
        lines = [seq[i:i + w] for i in range(0, len(seq), w)]
        if any(l and set(l) == {"N"} for l in lines):
            labs.append("all-N-line")
            break
    for r in case["records"]:
        seq = sequence(r["runs"])
        if seq.startswith("N") or seq.endswith("N"):
            labs.append("leading/trailing-N")
            break
    for rows in case["excludes"]:
        for i in range(len(rows)):
            for j in range(i + 1, len(rows)):
                if rows[i][0] == rows[j][0] and rows[j][1] < rows[i][2] and rows[j][2] <= rows[i][2]:
                    labs.append("nested-exclusions")
                    break
    return sorted(set(labs))


def known(case, v):
    return None


def check_case(case):
    from cnvlib import access

    out = []

    def bad(clause, detail):
        out.append({"clause": clause, "detail": detail})

    d = tempfile.mkdtemp(prefix="vk13.")
    try:
        fa = os.path.join(d, "g.fa")
        with open(fa, "w") as fh:
            fh.write(fasta_text(case))
        ex = []
        for i, rows in enumerate(case["excludes"]):
            p = os.path.join(d, f"x{i}.bed")
            with open(p, "w") as fh:
                for chrom, s, e in rows:
                    fh.write(f"{chrom}\t{s}\t{e}\n")
            ex.append(p)
        raw, final, masks = model(case)

        got_raw = {}
        for chrom, s, e in access.get_regions(fa):
            got_raw.setdefault(chrom, []).append((int(s), int(e)))
        want_raw = {k: v for k, v in raw.items() if v}
        if got_raw != want_raw:
            k = next(k for k in list(want_raw) + list(got_raw) if got_raw.get(k) != want_raw.get(k))
            bad("scanner", f"get_regions on {k!r} (line width {case['width']}): got {got_raw.get(k)}, non-N runs are {want_raw.get(k)}; "
                           f"runs={[r['runs'] for r in case['records'] if r['name'] == k]}")

        res = access.do_access(fa, ex, case["min_gap"], case["skip"])
        got = {}
        order = []
        for row in res.data.itertuples(index=False):
            got.setdefault(row.chromosome, []).append((int(row.start), int(row.end)))
            order.append(row.chromosome)
        # direct clauses
        for chrom, rows in got.items():
            if chrom not in masks:
                bad("direct:unknown-sequence", f"region on {chrom!r}, which is not in the FASTA")
                continue
            for s, e in rows:
                if not e > s:
                    bad("direct:non-empty", f"{chrom}:{s}-{e} is empty")
            for (s1, e1), (s2, e2) in zip(rows, rows[1:]):
                if not s2 > e1:
                    bad("direct:sorted-separated", f"{chrom}: {s1}-{e1} then {s2}-{e2}")
            mg = case["min_gap"] or 0
            for s, e in rows:
                seg = masks[chrom][s:e]
                if e > len(masks[chrom]) or s < 0:
                    bad("direct:inside-sequence", f"{chrom}:{s}-{e} beyond the sequence length {len(masks[chrom])}")
                    continue
                if seg and (not seg[0] or not seg[-1]):
                    bad("direct:edge-base", f"{chrom}:{s}-{e} starts or ends on an N / excluded base")
                for gs, ge in runs_of([not x for x in seg]):
                    if ge - gs >= mg:
                        bad("direct:bridged-gap-too-large", f"{chrom}:{s}-{e} holds an inaccessible stretch of {ge - gs} bases with min_gap {mg}")
                        break
        if case["skip"]:
            for chrom in got:
                if chrom in NONCANON:
                    bad("noncanonical-kept", f"{chrom!r} reported with skip_noncanonical on")
        for chrom in final:
            if chrom not in got:
                bad("sequence-missing", f"{chrom!r} has accessible regions {final[chrom][:4]} but none was reported (skip={case['skip']})")
        # rows of one sequence are contiguous in the output
        seen, prev = set(), None
        for c in order:
            if c != prev and c in seen:
                bad("direct:sequence-contiguous", f"rows of {c!r} are not contiguous in the output")
                break
            seen.add(c)
            prev = c
        if got != final and not out:
            k = next(k for k in list(final) + list(got) if got.get(k) != final.get(k))
            bad("model", f"{k!r}: got {got.get(k)}, expected {final.get(k)} (min_gap {case['min_gap']}, excludes "
                         f"{[[r for r in rows if r[0] == k] for rows in case['excludes']]}, raw runs {raw.get(k)})")
        # ---- command-line tier (a quarter of the cases): `cnvkit.py access` on the same files = do_access with its defaults
        from vk import gen

        if gen.pick(case, "cli", 4) == 0 and not out and case["min_gap"] is not None:
            from vk import cli

            diff = cli.access_diff(fa, ex, d, case["min_gap"])
            if diff:
                bad("cli:access", diff)
    finally:
        shutil.rmtree(d, ignore_errors=True)
    return out
