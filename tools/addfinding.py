#!/venv/bin/python
"""tools/addfinding.py PROPERTY KEY STATUS COMMIT_OR_- REPRODUCER WHAT  (hand tool; the file is never written by checks)"""
import json, sys
pid, key, status, commit, repro, what = sys.argv[1:7]
kf = json.load(open("known_findings.json"))
kf["findings"] = [f for f in kf["findings"] if not (f["property"] == pid and f["key"] == key)]
e = {"property": pid, "key": key, "status": status, "what": what, "reproducer": repro}
if status == "fixed":
    e["commit"] = commit
    e["line"] = f"fixed: property={pid} {commit} {what}"
kf["findings"].append(e)
kf["findings"].sort(key=lambda f: (f["property"], f["key"]))
json.dump(kf, open("known_findings.json", "w"), indent=1)
open("known_findings.json", "a").write("\n")
print("ok", len(kf["findings"]))
