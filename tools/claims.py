# executed by tools/mkmanifest.py: one claim(...) per property with a registered check
claim("C19",
      "property-based testing (Hypothesis): independent formula restatements + shift/scale metamorphic relations + half-weight inequalities over generated vectors",
      "Generated-input search: every estimator/smoother is run on thousands of generated vectors per run (ties, outliers, symmetric, constant, NaN, weight families) and compared with an independent restatement of its published formula plus the range / equivariance / invariance clauses of the statement. Sampling, not proof; right level because the property quantifies over all float vectors and the oracles are exact.",
      "Trusted: numpy median/sort, the restated formulas in vk/models.py; metamorphic clauses only on exactly representable shifts; ties at branch thresholds accept either branch.",
      "DESIGN.md 5/C19")
claim("C01",
      "bounded-exhaustive grid + property-based testing (Hypothesis) against the mixing-model inverse restated in the harness; a quarter of the cases also run `cnvkit.py call` in-process on written files as a differential against the library call",
      "Every (ploidy, reference sex, sample sex, naming, PAR genome, purity-grid) configuration x n in 0..12 x chromosome class is enumerated (1872 do_call runs, exhaustive for that grid) and generated purities/log2 values extend it; cn must equal the planted n, log2 must be rewritten to the pure ratio, cn must be a non-negative integer for arbitrary log2. Exhaustive on the grid, sampling beyond it.",
      "Trusted: the r/x table restated from the statement; purities >= 1e-6; tie values at .5 accept either rounding.",
      "DESIGN.md 5/C01")
claim("C02",
      "property-based testing (Hypothesis) with constructed boundary probes against the step-function definition; a quarter of the cases also run `cnvkit.py call` in-process on written files as a differential against the library call",
      "Threshold vectors, ploidies and reference sexes are generated; probe log2 values are constructed at every threshold, the adjacent doubles, every integer crossing of r*2^log2, random reals and NaN, and each row is compared with the definition restated in the harness; allelic split clauses checked for generated BAFs.",
      "Trusted: the restated definition; monotone corollary asserted for ploidy >= 2 only (the definition contradicts it at ploidy 1).",
      "DESIGN.md 5/C02")
claim("C06",
      "bounded-exhaustive small-scope enumeration + property-based testing against base-pair run algebra",
      "All pairs of multisets of <=2 intervals over 0..4 (quick) / <=2 x <=3 over 0..6 (thorough) in four chromosome/gene variants plus generated relation-biased tables up to 40 rows; merge/flatten/subtract/intersection/subdivide/resize/total_range_size compared with an independent run-algebra model. Exhaustive in the stated small scope, sampling beyond.",
      "Trusted: vk/models.py run algebra; tables sorted as tabio.read gives them; chromosome sizes >= ends.",
      "DESIGN.md 5/C06")
claim("C07",
      "bounded-exhaustive small-scope enumeration + property-based testing against the textbook overlap/containment inequalities",
      "Every (table, query) pair in the small scope and generated nested/duplicated/abutting tables with repeated queries, absent chromosomes, non-default index; by_ranges, intersection, iter_ranges_of, in_range(s), into_ranges compared row by row with the inequalities on a row-id column.",
      "Trusted: the select() model; sorted tables; iter_ranges_of not exercised with trim.",
      "DESIGN.md 5/C07")
claim("C14",
      "property-based testing (Hypothesis) against an independent run-squashing model, directly and through do_call filter lists; a quarter of the cases also run `cnvkit.py call --filter` in-process on written files as a differential against the library call",
      "Generated segment tables (sticky cn runs, CI/SEM around zero, zero weights, allelic cn with NaN) are filtered by each filter directly and by ordered filter lists through do_call with every method; outputs compared with a model that squashes maximal runs of equal (chromosome, level) and with direct conservation clauses.",
      "Trusted: squash model; cnvkit's own call for copy numbers inside filter lists (C01/C02); weighted_median (C19).",
      "DESIGN.md 5/C14")
claim("C20",
      "property-based testing (Hypothesis): exported BED/VCF/SEG/JTV/CDT/Nexus records re-derived row by row from the generated calls; a quarter of the cases also run `cnvkit.py export bed / vcf / seg` in-process on written files as a differential against the library call",
      "Generated segment tables (with/without cn, autosome/X/Y/PAR rows, start 0) and 1..5-sample file sets (mismatching bins, duplicate IDs) are exported; the harness parses the output back and re-derives which records must appear and what each field must say.",
      "Trusted: r/x table shared with C01; integer probes; PAR rows excluded where BED and VCF paths use different reference copies for cn-less tables.",
      "DESIGN.md 5/C20")
claim("C16",
      "property-based testing (Hypothesis): expected grouping read off a generated layout plan; genemetrics/squash/breaks rows re-derived; a quarter of the cases also run `cnvkit.py genemetrics / breaks` in-process on written files as a differential against the library call",
      "Generated chromosome layouts (genes, interrupted genes, intergenic stretches at every position, single trailing bins, gene-less chromosomes, stepped row index, optional segments cutting genes) give the expected by_gene sequence by construction; genemetrics (with and without segments), squash_genes and breaks are compared with rows re-derived from the plan.",
      "Trusted: the plan-to-groups reading; explicit sample sex; positive weights; comma-free names.",
      "DESIGN.md 5/C16")
claim("C17",
      "property-based testing (Hypothesis): per-segment statistics and bin tests recomputed independently on the bins selected by the overlap inequality; a quarter of the cases also run `cnvkit.py segmetrics / bintest` in-process on written files as a differential against the library call",
      "Generated bin tables and segmentations (bin-less, one-bin, large segments, boundaries at bin edges and inside bins, ties, null-coverage bins, stepped index) are run through segmetrics with generated statistic subsets and through bintest; every value is compared with an independent computation, the bootstrap CI is checked for order, range and reproducibility under reseeded global RNGs, BH adjustment against its O(n^2) definition on generated p-value vectors.",
      "Trusted: plain-formula models, scipy.stats.t / erfc; weights in (0,1); borderline decisions within 1e-12 of alpha accepted either way.",
      "DESIGN.md 5/C17")
claim("C13",
      "property-based testing (Hypothesis): FASTA texts and exclude BEDs generated from run plans; output compared with a per-base character model; a quarter of the cases also run `cnvkit.py access` in-process on written files as a differential against the library call",
      "Generated FASTA files (runs of N/n/ACGT/acgt snapped to or straddling line breaks, widths 1..80, empty records, with/without final newline), 0..3 exclude BEDs (nested, overlapping, edge-touching, absent contigs), min-gap 0..300/None and the contig filter are run through get_regions and do_access; the regions must equal the maximal runs of a per-base model (non-N, minus excluded, joined when gap < min_gap) and satisfy the direct clauses (non-empty, sorted, separated, no N/excluded base outside a bridged gap).",
      "Trusted: the per-base model; fixed table of canonical/non-canonical example names; valid FASTA (no blank lines, unique names).",
      "DESIGN.md 5/C13")
claim("C12",
      "property-based testing (Hypothesis): target/antitarget bins compared with half-open run algebra restated in the harness; a quarter of the cases also run `cnvkit.py target / antitarget` in-process on written files as a differential against the library call",
      "Generated bait tables (nested, overlapping, abutting, duplicate, zero-width, canonical and non-canonical contigs), access tables (abutting/overlapping/short regions, untargeted contigs) or none, and avg/min sizes are run through do_target (split on/off, short names, annotation) and do_antitarget; bins must tile exactly the union of the non-empty baits resp. the shrunk accessible space minus widened targets with max(1, round(len/avg)) equal bins per run, plus the direct clauses (order, disjointness, margins, size bounds, names, contigs).",
      "Trusted: vk/models.py run algebra; sorted bait tables; default minimum = avg/16; two open findings (contig fallback heuristic, minimum applied before splitting) are excluded by signature and counted.",
      "DESIGN.md 5/C12")
claim("C15",
      "property-based testing (Hypothesis): uniform-shift and estimator-zero oracles from restated estimators; planted-truth sex inference; a quarter of the cases also run `cnvkit.py sex` in-process on written files as a differential against the library call",
      "Generated bin tables (1..24 chromosomes, both naming styles or no autosome-like names, null bins, PAR-X bins, all four estimators x by_chrom x skip_low x PAR genome) must be shifted by one constant that zeroes the harness restatement of the (two-level) estimator over the selected bins; generated samples with X/Y at the documented levels for their sex and reference sex (noise sd 0.01..0.3, 40..400 X bins, with/without Y, weights, PAR) must be inferred right by guess_xx and do_sex, moved by exactly +-1/0 on X by shift_xx, and get the 0/-1 flat pattern.",
      "Trusted: vk/models.py estimator restatements; PAR coordinates restated; estimator ties accepted either way; sex inference is statistical: decided per generated noise realisation (0 failures in 40 000 at the registered generator).",
      "DESIGN.md 5/C15")
claim("C11",
      "property-based testing (Hypothesis) with planted truth: synthetic step / flat profiles with known breakpoints segmented by haar and hmm-germline",
      "Generated profiles (1..3 chromosomes, each a clean step between 0 and -1 / +0.585 / +1 in either order with 100..400 bins per side, or a flat control with or without a centromere gap; noise sd 0.01..0.1, weights 0.5..1, random bin sizes and spacing) are segmented; each stepped chromosome must give exactly two segments with the breakpoint within 5 bins and both means within 0.1, each flat arm exactly one segment.",
      "Trusted: the noise generator (numpy default_rng seeded from the case); statistical claim decided per noise realisation (0 failures in 16 000 at the registered generator); hmm / hmm-tumor outside the claim; cbs needs R (absent).",
      "DESIGN.md 5/C11")
claim("C08",
      "property-based testing (Hypothesis): differential reads of one abstract table rendered in every format by the harness + write/read/write round trips",
      "Generated abstract region tables (unsorted, start 0, duplicates, natural-vs-lexical chromosome orders, exotic contigs, extreme floats, 1..4 SEG samples) are rendered by the harness in 12 formats and read back: coordinates must be the abstract 0-based half-open rows, sorted, and read_auto must agree with the explicit reader; tab (cnvlib.read), bed3, bed4, interval, text and export seg -> parse_seg round trips must return the sorted table (integers exact, floats to 6 digits) and a second write must be byte-identical.",
      "Trusted: the harness renderers (written from the published format conventions); names/labels start with a letter or are plain integers; order between exotic contigs not asserted; one open finding (negative zero in an all-integral float column) excluded by signature.",
      "DESIGN.md 5/C08")
claim("C18",
      "property-based testing (Hypothesis): generated VCF texts interpreted line by line in the harness and compared with the reader, het selection and per-range BAF; a quarter of the cases also run `cnvkit.py call -v` in-process on written files as a differential against the library call",
      "Generated VCFs (1..3 samples, PEDIGREE or not, GT/AD/DP present, absent or '.', SNVs and indels, SOMATIC/FILTER flags) are read with generated sample/normal selectors, min_depth and skip_somatic; each row must carry the file's start, depth, alt count, alt_freq, zygosity and somatic flag for the pair chosen by the documented precedence, filtered as asked; load_het_snps must keep exactly the germline hets; baf_by_ranges must equal the median of the mirrored het frequencies per range (NaN when none), with TumorBoost and the purity rescale by their formulas, through do_call as well.",
      "Trusted: the harness interpretation of VCF fields; pysam as the parser underneath both; incomplete records only required finite; zero-het fallback and the all-0/0-normal work-around not asserted.",
      "DESIGN.md 5/C18")
claim("C09",
      "property-based testing (Hypothesis) with planted truth: synthetic BAMs written with pysam, depths recomputed read by read; serial vs parallel/chunked differential; a quarter of the cases also run `cnvkit.py coverage` in-process on written files as a differential against the library call",
      "Generated coordinate-sorted BAMs (1..3 contigs, 0..5000 reads straddling bin edges and contig ends, soft clips, every filter flag, MAPQ 0..60, optional I/D/N) and BED files (3/4/6/7 columns, abutting, overlapping, nested, zero-width, past-the-end bins, unsorted, > 5000 lines) are run through do_coverage with both algorithms and mapq cut-offs; every row must carry its bin's coordinates and name and depth = aligned bases of counted reads inside the bin / length (log2 or 0/-20); the table for processes in {2,3,16} and chunk sizes {1,2,7,100,5000} must equal the serial one exactly.",
      "Trusted: pysam/htslib as BAM writer and as the engine under bedcov; the read-by-read model; pileup compared on indel-free BAMs only; OS scheduling not controlled.",
      "DESIGN.md 5/C09")
claim("C03",
      "property-based testing (Hypothesis): segment tables compared with survivors recomputed by the package's own filters and with aggregates recomputed over the spanned bins; a quarter of the cases also run `cnvkit.py segment` in-process on written files as a differential against the library call",
      "Generated bin tables (1..6 chromosomes, 1..400 bins, centromere gaps, null-coverage edge/interior bins, zero weights, outliers, ignored names) are segmented with none/haar/hmm/hmm-tumor/hmm-germline under every filter combination and 1..16 processes; per chromosome the segments must be sorted, positive, disjoint, inside the input span, hold every surviving bin exactly once with probes equal to the survivors inside, reach the arm's first/last input bin (none, haar), carry weight/depth/gene aggregated over all spanned input bins and (none, HMM) the weighted mean log2 of their survivors; parallel equals serial.",
      "Trusted: the package's filter functions for deciding survivors; harness arm finder; cbs/flasso (R) not installed; one open finding (HMM on <= 3 zero-spread bins) excluded by signature.",
      "DESIGN.md 5/C03")
claim("C04",
      "property-based testing (Hypothesis): independent fix_model (coordinate-keyed matching, filters, centring, rolling-median corrections) + metamorphic permutation / rescaling relations; a quarter of the cases also run `cnvkit.py fix` in-process on written files as a differential against the library call",
      "Generated references (pooled/flat, with/without gc and rmask, bad bins on and beyond every threshold, superset of the sample) and sample target/antitarget tables (subset, empty antitargets, null bins, Picard gc column) are run through do_fix for every subset of corrections; emitted bins, genomic order, class-constant offset (corrections off), exact log2 against the model (tie-free covariates), centring, weight range and monotonicity in size and spread, invariance under row permutation of each input and under depth rescaling, and refusal of missing / duplicated coordinates are checked.",
      "Trusted: vk/models.py rolling median and median; the edge-density formula restated from its docstring; covariate ties skip the exact-value clause; weights of classes with exactly symmetric residuals are not compared across variants (float tie in biweight_midvariance).",
      "DESIGN.md 5/C04")
claim("C05",
      "property-based testing (Hypothesis): cohorts written to disk and re-parsed by an independent reference_model (centring, sex shift, pseudo-sample, biweight location/midvariance); planted-truth consequences; gc/rmask by character count; a quarter of the cases also run `cnvkit.py reference` in-process on written files as a differential against the library call",
      "Generated cohorts of 1..8 coverage files (any sex mix, depth scales, noise, naming style, with/without/empty antitarget files, male/female reference, sexes given or inferred, shuffled file order) are pooled with corrections off and every bin's log2, spread and depth is compared with the restated estimator over the samples plus the flat pseudo-sample; depth-only cohorts must reproduce the centred profile with spread ~ 0 and X/Y must sit at -1/0 and -1; with corrections on the bins and the chromosome-level X/Y medians are checked; mismatching bins must be rejected; flat references give the 0/-1 pattern and gc/rmask equal the character counts of a generated FASTA.",
      "Trusted: vk/models.py biweight restatements (ties accept either branch); the harness .cnn writer/parser; pyfaidx as FASTA reader underneath; sex inference itself is C15's subject.",
      "DESIGN.md 5/C05")
claim("C10",
      "property-based testing (Hypothesis): generated call histories over a shared workspace, as composite sequences and as a RuleBasedStateMachine; argument snapshots + differential against a fresh single-process recomputation; write-sequence model",
      "Histories of up to 4 steps (target, antitarget, fix, segment with 1/2/3/16 processes, segmetrics, call with every method and filter list, genemetrics, breaks, bintest, metrics, exports, center_all on a copy, interval algebra, by_arm/by_gene iteration, RNG reseeds) run on shared argument objects; after every step a deep snapshot of every argument must be unchanged and the result must equal the first evaluation in the history and a fresh single-process recomputation on pristine arguments under a fixed RNG state; k = 1..5 ensure_path+write cycles must leave k files with the i-th oldest content intact.",
      "Trusted: deepcopy/snapshot machinery; exact (bitwise) comparison; histories are sampled; OS scheduling not controlled; side effects outside arguments/results (warnings filter, RNG reseeding by cnvkit itself) outside the statement.",
      "DESIGN.md 5/C10")
