"""Coverage-guided campaign (atheris / libFuzzer) for one property, driven through the property's own Hypothesis strategy.

    python -m vk.fuzz worker <PID> <seconds> <seed> <outdir>     (one libFuzzer process; internal)
    run_campaign(pid, seconds, jobs, seed, outdir) -> dict        (used by the runner in the thorough tier)

The fuzz target is `check_case` itself (the semantic oracle lives inside the target): libFuzzer mutates a byte buffer,
`hypothesis.fuzz_one_input` decodes it into a structured case through `strategy()`, and a violation is written as a
replayable case JSON *before* the process aborts, so the saved case - not the byte buffer - is the reproducible unit.
Only the cnvkit packages named by the module's FUZZ["instrument"] are instrumented for coverage feedback.
"""
import json
import os
import re
import subprocess
import sys
import time

HERE = os.path.dirname(os.path.dirname(os.path.abspath(__file__)))
DEPS = os.path.join(HERE, ".deps")


def available():
    return os.path.isdir(os.path.join(DEPS, "atheris"))


def worker(pid, seconds, seed, outdir, replaydir):
    sys.path.insert(0, DEPS)
    import atheris

    from vk import runner

    runner.quiet()
    mod = runner.load_mod(pid)
    include = list(getattr(mod, "FUZZ", {}).get("instrument", ["cnvlib"]))
    with atheris.instrument_imports(include=include):
        runner.ensure_repo()
        for name in include:
            __import__(name)
    import hypothesis
    from hypothesis import HealthCheck, given, settings

    open_keys = {f["key"] for f in runner.load_known(pid) if f.get("status") == "open"}
    counts = {"cases": 0, "nontrivial": 0}
    seen = set()

    @settings(database=None, deadline=None, suppress_health_check=list(HealthCheck))
    @given(mod.strategy())
    def prop(case):
        counts["cases"] += 1
        if mod.nontrivial(case):
            h = runner.chash(case)
            if h not in seen:
                seen.add(h)
                counts["nontrivial"] += 1
        for v in runner.safe_check(mod, case):
            key = mod.known(case, v) if hasattr(mod, "known") else None
            if key is not None and key in open_keys:
                continue
            path = os.path.join(replaydir, f"{pid}-fuzz-{runner.chash(case)}.json")
            with open(path, "w") as fh:
                json.dump({"property": pid, "clause": v["clause"], "violations": [{"clause": v["clause"], "detail": str(v["detail"])[:2000]}],
                           "case": case}, fh, indent=1, default=runner._default, sort_keys=True)
            raise AssertionError(v["clause"])

    def target(data):
        prop.hypothesis.fuzz_one_input(data)
        if counts["cases"] % 200 == 0:
            with open(os.path.join(outdir, f"counts-{seed}.json"), "w") as fh:
                json.dump(counts, fh)

    corpus = os.path.join(outdir, f"corpus-{seed}")
    os.makedirs(corpus, exist_ok=True)
    argv = [sys.argv[0], corpus, f"-max_total_time={int(seconds)}", f"-seed={int(seed) or 1}", "-print_final_stats=1", "-max_len=4096",
            f"-artifact_prefix={outdir}/crash-{seed}-"]
    atheris.Setup(argv, target)
    try:
        atheris.Fuzz()
    finally:
        with open(os.path.join(outdir, f"counts-{seed}.json"), "w") as fh:
            json.dump(counts, fh)


def run_campaign(pid, seconds, jobs, seed, outdir, replaydir):
    """-> {"available", "execs", "cases", "nontrivial", "new_features", "violations": [replay paths], "wall_s"}"""
    res = {"available": available(), "execs": 0, "cases": 0, "nontrivial": 0, "coverage_features": 0, "violations": [], "jobs": jobs,
           "seconds_per_job": seconds}
    if not res["available"]:
        return res
    os.makedirs(outdir, exist_ok=True)
    os.makedirs(replaydir, exist_ok=True)
    before = set(os.listdir(replaydir))
    t0 = time.time()
    procs = []
    env = dict(os.environ)
    env["PYTHONPATH"] = os.pathsep.join([env.get("VERIF_REPO", "/repo"), HERE, DEPS])
    for j in range(jobs):
        log = open(os.path.join(outdir, f"fuzz-{j}.log"), "w")
        procs.append((subprocess.Popen([sys.executable, "-m", "vk.fuzz", "worker", pid, str(seconds), str(seed * 100 + j + 1), outdir, replaydir],
                                       stdout=log, stderr=subprocess.STDOUT, env=env, cwd=HERE), log))
    for p, log in procs:
        try:
            p.wait(timeout=seconds + 300)
        except subprocess.TimeoutExpired:
            p.kill()
        log.close()
    for name in sorted(os.listdir(outdir)):
        path = os.path.join(outdir, name)
        if name.startswith("fuzz-") and name.endswith(".log"):
            txt = open(path, errors="replace").read()
            m = re.search(r"stat::number_of_executed_units:\s*(\d+)", txt)
            if m:
                res["execs"] += int(m.group(1))
            f = re.findall(r"ft:\s*(\d+)", txt)
            if f:
                res["coverage_features"] = max(res["coverage_features"], int(f[-1]))
        elif name.startswith("counts-"):
            c = json.load(open(path))
            res["cases"] += c["cases"]
            res["nontrivial"] += c["nontrivial"]
    for name in sorted(set(os.listdir(replaydir)) - before):
        if name.startswith(f"{pid}-fuzz-") and name.endswith(".json"):
            res["violations"].append(os.path.join(replaydir, name))
    res["wall_s"] = round(time.time() - t0, 1)
    return res


if __name__ == "__main__":
    if len(sys.argv) >= 7 and sys.argv[1] == "worker":
        worker(sys.argv[2].upper(), float(sys.argv[3]), int(sys.argv[4]), sys.argv[5], sys.argv[6])
    else:
        print(__doc__)
        sys.exit(2)
