#!/venv/bin/python
"""Regenerate MANIFEST.json from the table below (keeps it valid while checks are added)."""
import importlib, json, os, sys
HERE = os.path.dirname(os.path.dirname(os.path.abspath(__file__)))
sys.path.insert(0, HERE)
os.chdir(HERE)

TITLES = {json.loads(l)["id"]: json.loads(l)["title"] for l in open("properties.jsonl")}

# property id -> (technique, level text, level note, design ref)
CLAIMS = {}

def claim(pid, technique, text, note, ref):
    CLAIMS[pid] = (technique, text, note, ref)

exec(open(os.path.join(HERE, "tools", "claims.py")).read())

checks = []
for pid in sorted(CLAIMS):
    technique, text, note, ref = CLAIMS[pid]
    checks.append({
        "property_id": pid,
        "quick_cmd": f"./check {pid} --tier quick",
        "thorough_cmd": f"./check {pid} --tier thorough",
        "evidence_file": f"evidence/{pid}.json",
        "replay_cmd_template": f"./check {pid} --replay {{path}}",
        "engine": "vk",
        "level_claimed": {"category": "exploration", "text": text, "design_ref": ref},
        "level_note": note,
        "technique": technique,
    })
na = [{"property_id": pid, "reason": "check not built yet in this session (planned in DESIGN.md section 5); the technique applies"}
      for pid in sorted(TITLES) if pid not in CLAIMS]
man = {
    "version": 1,
    "setup_cmd": "./setup.sh",
    "hooks": {
        "guard": "ETAL_CNVKIT_VERIF",
        "enable": "no source hooks: cnvkit is pure Python, installed editable from /repo; ./check puts $VERIF_REPO (default /repo) first on PYTHONPATH and imports the working tree in a fresh interpreter",
        "baseline_off_cmd": "cd /repo && /venv/bin/python -m pytest -ra -q -p no:cacheprovider --timeout=900 --continue-on-collection-errors",
        "source_commits": [],
        "add_only": True,
    },
    "engines": [{"name": "vk", "path": "vk/", "serves_properties": sorted(CLAIMS),
                 "kind_free_text": "Hypothesis-driven property-based testing with independent reference models, bounded-exhaustive enumeration, survey-then-shrink bucketing (vk/runner.py)"}],
    "checks": checks,
    "notes": "Every check: ./check <ID> [--tier quick|thorough] [--replay PATH]; exit 0 held, 1 violation (VIOLATION line + replay file under replays/), 2 harness error. Fixed and open findings: known_findings.json. Regressions replayed first: regressions/<ID>/.",
    "not_applicable": na,
}
json.dump(man, open("MANIFEST.json", "w"), indent=1)
open("MANIFEST.json", "a").write("\n")
try:
    import jsonschema
    jsonschema.validate(man, json.load(open("/root/.vp/MANIFEST.schema.json")))
    print("MANIFEST.json valid;", len(checks), "checks;", len(na), "not_applicable")
except ImportError:
    print("MANIFEST.json written (jsonschema not importable here);", len(checks), "checks")
