"""Shared generators (DESIGN.md section 3). Every strategy yields JSON-able data."""
import itertools

from hypothesis import strategies as st

RELATIONS = ["disjoint", "abutting", "overlapping", "nested", "duplicate"]

# names by category, as listed in the statements of C12/C13 (ground truth table, not the package regex)
CANONICAL = ["chr1", "chr2", "chr10", "chr22", "chrX", "chrY", "1", "7", "X"]
NONCANONICAL = ["chrUn_gl000220", "chr1_gl000191_random", "chr6_apd_hap1", "chr1_KI270762v1_alt",
                "chrEBV", "chrM", "MT", "HLA-A*01:01", "chrUn_KI270302v1", "chr4_GL000008v2_random"]


def intervals_upto(maxcoord):
    return [(s, e) for s in range(maxcoord + 1) for e in range(s + 1, maxcoord + 1)]


def multisets(items, maxsize):
    for k in range(maxsize + 1):
        yield from itertools.combinations_with_replacement(items, k)


@st.composite
def chrom_rows(draw, max_rows=12, max_coord=10 ** 6, min_rows=0, small=False):
    """Rows (start, end) on one chromosome built from relation choices between consecutive rows;
    returned sorted by (start, end), start < end."""
    n = draw(st.integers(min_rows, max_rows))
    rows = []
    if n == 0:
        return rows
    unit = 1 if small else draw(st.sampled_from([1, 1, 10, 1000]))
    lim = max(4, max_coord // unit)
    s = draw(st.integers(0, max(0, min(lim // 4, 50))))
    e = s + draw(st.integers(1, 30))
    rows.append((s, e))
    for _ in range(n - 1):
        ps, pe = rows[-1]
        rel = draw(st.sampled_from(RELATIONS))
        if rel == "disjoint":
            s = pe + draw(st.integers(1, 40))
            e = s + draw(st.integers(1, 30))
        elif rel == "abutting":
            s = pe
            e = s + draw(st.integers(1, 30))
        elif rel == "overlapping":
            s = draw(st.integers(ps, pe - 1))
            e = pe + draw(st.integers(1, 30))
        elif rel == "nested":
            s = draw(st.integers(ps, pe - 1))
            e = draw(st.integers(s + 1, pe))
        else:
            s, e = ps, pe
        rows.append((s, e))
    rows = [(s * unit, e * unit) for s, e in rows if e * unit <= max_coord]
    return sorted(rows)


@st.composite
def interval_table(draw, chroms=("chr1", "chr2", "chr10", "chrX"), max_rows=40, max_coord=10 ** 6,
                   columns=(), min_chroms=0, small=False):
    """A table in tabio.read order: {"cols": [...], "rows": [[chrom, start, end, extras...], ...]}"""
    k = draw(st.integers(min_chroms, len(chroms)))
    use = sorted(draw(st.lists(st.sampled_from(range(len(chroms))), min_size=k, max_size=k, unique=True)))
    rows = []
    per = max(1, max_rows // max(1, k))
    gid = 0
    for ci in use:
        for s, e in draw(chrom_rows(max_rows=per, max_coord=max_coord, small=small)):
            row = [chroms[ci], s, e]
            for col in columns:
                if col == "gene":
                    row.append(draw(st.sampled_from(["G%d" % gid, "G%d" % (gid // 3), "-", "Antitarget"])))
                elif col == "weight":
                    row.append(draw(st.integers(0, 64)) / 64.0)
                elif col == "probes":
                    row.append(draw(st.integers(1, 50)))
                elif col == "strand":
                    row.append(draw(st.sampled_from(["+", "-"])))
                elif col == "rid":
                    row.append(gid)
                elif col == "val":
                    row.append(draw(st.integers(-64, 64)) / 8.0)
                elif col == "ival":
                    row.append(draw(st.integers(-5, 5)))
                else:
                    raise ValueError(col)
                gid += 1
            rows.append(row)
    return {"cols": ["chromosome", "start", "end"] + list(columns), "rows": rows}


def table_relations(rows):
    """Set of relation labels present between rows (start,end) of one chromosome (sorted)."""
    labs = set()
    rows = sorted(rows)
    for i in range(len(rows)):
        for j in range(i + 1, len(rows)):
            (s1, e1), (s2, e2) = rows[i], rows[j]
            if (s1, e1) == (s2, e2):
                labs.add("duplicate")
            elif s2 == e1:
                labs.add("abutting")
            elif s2 < e1:
                if e2 <= e1 or s1 == s2:
                    labs.add("nested")
                else:
                    labs.add("overlapping")
    return labs


def by_chrom(table):
    out = {}
    for r in table["rows"]:
        out.setdefault(r[0], []).append((r[1], r[2]))
    return out


def to_frame(table):
    import pandas as pd

    cols = table["cols"]
    if not table["rows"]:
        df = pd.DataFrame({c: pd.Series([], dtype=(str if c in ("chromosome", "gene", "strand") else
                                                    "int64" if c in ("start", "end", "probes", "rid", "ival") else float))
                           for c in cols})
        return df
    return pd.DataFrame([tuple(r) for r in table["rows"]], columns=cols)


def pick(case, salt, n):
    """An integer in 0..n-1 that is a pure function of the case JSON and a salt (replays see the same choice)."""
    import json
    import zlib

    return zlib.crc32((salt + json.dumps(case, sort_keys=True, default=str)).encode()) % n


def row_order(case, keys, salt="order"):
    """The order in which a table's rows arrive: as built (half of the cases), chromosomes interleaved round-robin,
    reversed, or shuffled - a pure function of the case JSON; an explicit case["row_order"] (a mode name) wins.
    keys = the chromosome of every row; returns the list of row positions in arrival order."""
    import json
    import random
    import zlib

    n = len(keys)
    h = zlib.crc32((salt + json.dumps(case, sort_keys=True, default=str)).encode())
    mode = case["row_order"] if isinstance(case, dict) and "row_order" in case else \
        ["asis", "asis", "asis", "asis", "interleave", "reverse", "shuffle", "tail"][h % 8]
    idx = list(range(n))
    if mode == "interleave":
        groups = {}
        for i, k in enumerate(keys):
            groups.setdefault(k, []).append(i)
        out = []
        lists = list(groups.values())
        for j in range(max((len(g) for g in lists), default=0)):
            out += [g[j] for g in lists if j < len(g)]
        return out
    if mode == "reverse":
        return idx[::-1]
    if mode == "shuffle":
        random.Random(h).shuffle(idx)
        return idx
    if mode == "tail" and n > 2:
        # a few rows of the first chromosome appended after everything else (two stacked tables)
        k = max(1, sum(1 for x in keys if x == keys[0]) // 3)
        return idx[k:] + idx[:k]
    return idx


COORD_DTYPES = ["int64", "int64", "int64", "int64", "int32", "uint32", "uint64", "float64"]


def coord_dtype(case, table, salt="cd"):
    """The dtype in which a table's start/end columns arrive (a DataFrame built by a caller may hold them as int32,
    unsigned or float64; GenomicArray converts them): a pure function of the case JSON, limited to dtypes that can
    hold the table's largest coordinate exactly."""
    import json
    import zlib

    if isinstance(case, dict) and "coord_dtype" in case:
        return case["coord_dtype"]
    dt = COORD_DTYPES[zlib.crc32((salt + json.dumps(case, sort_keys=True, default=str)).encode()) % len(COORD_DTYPES)]
    top = max([max(r[1], r[2]) for r in table["rows"]], default=0)
    if (dt == "int32" and top >= 2 ** 31) or (dt == "uint32" and top >= 2 ** 32) or (dt == "float64" and top >= 2 ** 53):
        return "int64"
    return dt


def to_garr(table, cls=None, meta=None, coord_dtype=None):
    from skgenome import GenomicArray

    cls = cls or GenomicArray
    df = to_frame(table)
    if coord_dtype and coord_dtype != "int64":
        df = df.astype({"start": coord_dtype, "end": coord_dtype})
    return cls(df, meta)


# ------------------------------------------------------------------ row labels
# cnvkit arrays keep pandas row labels through filtering and slicing: arr[mask] leaves gaps, arr[::k] / arr[k:] leave a
# (strided / shifted) RangeIndex. Library code that aligns by label or mixes labels with positions is only exposed by such inputs.
INDEX_SPECS = [None, None, None, [7, 1], [3, 2], [0, 2, "range"], [5, 1, "range"], [1, 3, "range"], "gaps"]
# "perchrom" (labels restarting at 0 on every chromosome, i.e. repeated labels) is understood by relabel() but not drawn
# here: segfilters / segmentation assert a unique row index, so only the checks of functions that accept repeated labels
# (do_call without filters: C01, C02) ask for it explicitly


def index_spec():
    return st.sampled_from(INDEX_SPECS)


def relabel(df, spec):
    """Give `df` (in place) the row labels described by `spec`; returns df."""
    import numpy as np
    import pandas as pd

    n = len(df)
    if spec is None or n == 0:
        return df
    if spec == "perchrom":
        # what pd.concat of per-chromosome pieces leaves when nobody renumbers: labels restart at 0 on every chromosome,
        # so they repeat (seeded change C02m selected rows by label after a boolean mask)
        df.index = df.groupby("chromosome", sort=False).cumcount().to_numpy() if "chromosome" in df.columns else np.arange(n) % 3
    elif spec == "gaps":
        # what boolean filtering leaves: increasing labels with irregular gaps
        df.index = np.cumsum(1 + (np.arange(n) * 7 % 3))
    elif len(spec) > 2 and spec[2] == "range":
        df.index = pd.RangeIndex(spec[0], spec[0] + spec[1] * n, spec[1])
    else:
        df.index = np.arange(n) * spec[1] + spec[0]
    return df


def index_label(spec):
    if spec is None:
        return "index:default"
    if spec == "gaps":
        return "index:gaps"
    if spec == "perchrom":
        return "index:repeated-per-chromosome"
    return "index:strided-RangeIndex" if len(spec) > 2 else "index:non-default"


def spec_for(case, salt=""):
    """Row-label variant for a case: a pure function of the case JSON (so replays see the same labels)."""
    import json
    import zlib

    if isinstance(case, dict) and "row_labels" in case:
        return case["row_labels"]  # explicit (regression files)
    h = zlib.crc32((salt + json.dumps(case, sort_keys=True, default=str)).encode())
    return INDEX_SPECS[h % len(INDEX_SPECS)]


OFFSETS = [0, 0, 0, 0, 240000000, 2 ** 31 + 7]


def offset_for(case, salt="off"):
    """Where on the chromosome a generated table sits (near the start, at human-chromosome scale, beyond 2^31): a pure
    function of the case JSON; an explicit case["offset"] wins."""
    import json
    import zlib

    if isinstance(case, dict) and "offset" in case:
        return case["offset"]
    return OFFSETS[zlib.crc32((salt + json.dumps(case, sort_keys=True, default=str)).encode()) % len(OFFSETS)]
