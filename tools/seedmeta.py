#!/venv/bin/python
"""Write seeded/<ID><tag>/meta.json from the table below + the confirm.txt left by tools/seedcheck.sh, and print the
markdown table used in DESIGN.md section 7.2."""
import json
import os
import re

HERE = os.path.dirname(os.path.dirname(os.path.abspath(__file__)))

# id -> (property, what the change is, what it needs in order to manifest, first outcome, what was strengthened (or None))
SEEDS = {
    "C01a": ("C01", "parx_filter/pary_filter split into in_par1/in_par2 with a strict `end < par_end`", "a PAR bin whose end equals the PAR end exactly + diploid_parx_genome + purity < 1 + male sample or reference", "missed", "C01 now places PAR rows flush with the PAR start and the PAR end, and ordinary X/Y rows abutting each PAR from outside"),
    "C02a": ("C02", "haploid rescale `cnum // ploidy * ref_copies` (truncation before scaling)", "ploidy 4..6 on Y or haploid-reference X, log2 at or below the last threshold", "caught", None),
    "C06a": ("C06", "subtract drops an excluded row when its end is below its predecessor's instead of a running maximum", "b holds a container and >= 2 nested siblings whose ends do not shrink monotonically", "caught", None),
    "C07a": ("C07", "intersection gathers rows with positional take() instead of .loc", "a table with a non-default row index, outer/inner mode", "caught", None),
    "C08a": ("C08", "GenomicArray.sort gains an 'already ordered' fast path that ignores `end`", "input already in (chromosome, start) order with equal starts and descending ends", "caught", None),
    "C09a": ("C09", "to_chunks rolls over before writing; a final, exactly full chunk is never yielded", "pileup with processes > 1 and a BED whose line count is a multiple of the chunk size", "caught", None),
    "C11a": ("C11", "squash_by_groups adds the arm index to the levels before numbering runs", "hmm-germline, >= 2 chromosomes, neutral->loss or loss->gain state adjacency across a chromosome boundary", "caught", None),
    "C12a": ("C12", "guess_chromosome_regions pairs table-order names with groupby-sorted endpoints", "no access table, >= 2 targeted chromosomes in non-alphabetical order with different extents", "caught", None),
    "C13a": ("C13", "the two 'first block of a mixed line' branches of the scanner merged", "a non-N run ending exactly at a line break followed by a line starting with N (not all N)", "caught", None),
    "C14a": ("C14", "do_call partitions the filter list through constant tuples: cn always runs before ampdel", "a filter list with ampdel before cn and two equal-cn amp/del runs separated by neutral segments", "caught", None),
    "C15a": ("C15", "autosomes(): the 'no autosome-like names' early return moved after the PAR-X merge", "no integer-named chromosome + an X bin inside PAR + diploid_parx_genome", "caught", None),
    "C16a": ("C16", "genemetrics drops low-coverage bins before grouping by gene", "skip_low=True and a gene containing a null-coverage bin", "caught", None),
    "C17a": ("C17", "smoothed bootstrap noise drawn from an unseeded numpy Generator", "interval ci + smoothed=True, two evaluations compared", "caught", None),
    "C18a": ("C18", "PEDIGREE pairs sorted/deduplicated before the first is taken", ">= 2 PEDIGREE lines declared in non-alphabetical order, no sample_id", "missed", "C18 now generates two PEDIGREE pairs (shared normal) in either declaration order"),
    "C19a": ("C19", "weighted_std rewritten as E[X^2]-E[X]^2", "constant non-zero data, or a mean >= 1e5 x the spread", "caught", None),
    "C20a": ("C20", "SVLEN computed from the POS-adjusted start", "a non-neutral segment starting at 0", "caught", None),
    "C03b": ("C03", "weight filter collapsed to `weight <= min_weight`", "min_weight > 0 and a bin whose weight equals it exactly", "missed", "C03 now plants weights on and one ulp around the min_weight threshold"),
    "C04b": ("C04", "reference rows renumbered whenever a correction was requested (not only when one ran)", "reference without gc, do_gc on / do_edge off, a bad reference bin that is not last, empty antitargets", "caught", None),
    "C05b": ("C05", "sex calls available only from antitarget files are dropped", "inferred sexes, target panel without sex-chromosome bins, non-empty antitargets, a female sample", "missed", "C05 now generates panels without sex-chromosome targets"),
    "C06b": ("C06", "resize_ranges drops vanished rows by label instead of by mask", "negative bp on a table with repeated row labels, e.g. the output of intersection(mode='trim')", "missed", "C06 now feeds the trimmed intersection into the unary operations and relabels operands (shifted, strided, repeated labels)"),
    "C07b": ("C07", "two cooperating edits: idx_ranges dispatch keyed on the bisected bound + 'trim' passed through", "trim mode, a start bound but no end bound, nested rows", "caught", None),
    "C10b": ("C10", "smoothed bootstrap noise from an unseeded Generator (lint-style NPY002 clean-up)", "segmetrics ci + smoothed=True evaluated twice / against a fresh recomputation", "caught", None),
    "C14b": ("C14", "chromosome codes from pd.factorize (fresh index) added to label-indexed run numbers", "filter list [ampdel, cn] where ampdel drops a run that is not last", "caught", None),
    "C16b": ("C16", "by_gene fast path: positions = label - index.start for any RangeIndex", "an array whose row index is a strided RangeIndex (cnarr[::2])", "missed", "C16 (and gen.relabel for seven other checks) now generates strided / shifted RangeIndex and gapped row labels"),
    "C01c": ("C01", "log2_ratios: sex-chromosome doubling moved before the 1e-3 floor", "purity path, n = 0 on Y or haploid-reference X", "caught", None),
    "C02c": ("C02", "absolute_threshold returns a label-indexed Series filled by position", "threshold calls on an array with a non-default row index", "caught", None),
    "C08c": ("C08", "interval sniffing pattern no longer accepts strand '.'", "an interval list without @ header whose first strand is '.', read with auto-detection (BED4 -> interval conversion)", "missed", "C08 now auto-detects the files cnvkit itself writes and a BED4 -> read -> write interval -> read_auto chain"),
    "C09c": ("C09", "--count memoises whole result rows by coordinates", "--count on a BED listing the same interval twice under different names", "caught", None),
    "C11c": ("C11", "segment_hmm fits the model on a smoothed copy but decodes the raw bins", "hmm-germline with noise sd >= 0.08 on mostly neutral genomes", "caught", None),
    "C12c": ("C12", "subdivide merges with bp=1: abutting baits are no longer merged", "target --split with abutting baits", "caught", None),
    "C13c": ("C13", "do_access joins small gaps before subtracting the exclude files as well as after", "an exclusion next to an N run shorter than min_gap", "caught", None),
    "C15c": ("C15", "guess_xx memoises its answer in meta, ignoring the reference-sex argument and later data changes", "a call history on one array: guess_xx/expect_flat_log2 under another assumption first, or values replaced in place", "missed", "C15 now runs a history prelude on a third of the sex cases and re-uses the array object for the opposite-sex sample on another third"),
    "C17c": ("C17", "bintest standard deviation floored at sqrt(1e-4)", "a bin with weight exactly 1.0 and a small non-zero residual", "missed", "C17 now generates full-weight bins (p = 0 by the stated formula)"),
    "C18c": ("C18", "zygosity_from_freq re-uses the tumour's zygosity array for the normal", "paired sample + zygosity_freq + tumour frequency outside the het band where the normal's is inside", "caught", None),
    "C19c": ("C19", "modal_location builds its KDE from np.unique(a)", "data with repeated values", "caught", None),
    "C20c": ("C20", "export_bed copies derived copy numbers through a fresh-index Series", "segments without cn column and a non-default row index", "caught", None),
    "C03d": ("C03", "transfer_fields aggregates weight/depth/gene over the segment coordinates copied before the end-point stretch", "edge bins of an arm removed by a filter (skip_low, min_weight, outliers, zero weight)", "caught", None),
    "C04d": ("C04", "autosomes(): regex `chr?\\d+$` (case-insensitive) no longer matches plain integer names", "plain chromosome naming (1, 2, X) with sex chromosomes offset from the autosomes", "missed", "C04 (and C03, C11, C14, C16, C17) now draw the chromosome naming style: chr1..chrX or 1..X"),
    "C05d": ("C05", "calculate_gc_lo counts every non-'N' symbol (lowercase n, IUPAC codes) as a called base", "a FASTA whose bins contain lowercase n or ambiguity codes", "caught", None),
    "C09d": ("C09", "--count clips the bin end to the contig length (and then uses it as divisor and output coordinate)", "--count with a bin running past the end of its contig", "caught", None),
    "C10d": ("C10", "get_combiners fills its defaults into the caller's `combine` dict", "merge / flatten with a caller-supplied combiner dict on overlapping rows; the strand combiner sticks from the first call", "missed", "C10 now has a step that merges / flattens an overlapping mixed-strand table with a shared combiner dict"),
    "C20d": ("C20", "create_chrom_ids skips every all-digit chromosome name", "export seg --enumerate-chroms with plain names whose autosomes are not a contiguous 1..n", "missed", "C20 now draws both naming styles and non-contiguous autosome panels for the multi-sample exports"),
    "C02e": ("C02", "NaN-log2 fallback moved before the per-row reference lookup and filled with ploidy", "a missing log2 on Y or on haploid-reference X", "caught", None),
    "C06e": ("C06", "subdivide drops rows shorter than min_size before merging", "min_size > 0 and short rows that overlap or abut into a region >= min_size", "caught", None),
    "C07e": ("C07", "into_ranges skips the summary when all hits carry the same value", ">= 2 hits with equal values and a non-idempotent summary function, or NaN as first hit", "caught", None),
    "C12e": ("C12", "subtract: the 'exclusion overlaps only the right side' branch still reads the raw (not running-maximum) ends", "nested targets followed by a later target, accessible region whose right edge is covered by a padded target (always so without an access table)", "missed", "C12 now places baits beyond the guessed telomere end when no access table is given and puts access-region edges next to bait edges (C06's check also catches this change)"),
    "C16e": ("C16", "group_by_genes also skips genes whose own mean is NaN", "genemetrics with segments + skip_low and a gene whose bins inside the segment are all null-coverage", "caught", None),
    "C18e": ("C18", "_resolve_sample treats the integer selector 0 as 'not given'", "normal_id=0 (or sample_id=0 against PEDIGREE)", "caught", None),
    "C19e": ("C19", "on_array applies the length-1 shortcut before stripping NaN", "a vector with exactly one finite value among NaNs (gapper_scale, q_n)", "caught", None),
    "C01f": ("C01", "absolute_dataframe fills the purity-adjusted copies through a fresh-index Series", "clonal call with purity < 1 on an array with non-default row labels", "caught", None),
    "C03f": ("C03", "transfer_fields pairs the k-th chromosome of the bins with the k-th chromosome of the segments", "HMM method, >= 2 chromosomes, one that is not the last loses every bin", "caught", None),
    "C05f": ("C05", "center_by_window shuffles ties with a module-level RandomState instead of reseeding per call", "corrections on, tied covariates, a cohort of >= 2 samples (each sample is corrected with another tie order)", "missed", "C05's corrections-on tier now draws non-flat profiles and requires depth-only cohorts to keep spread ~ 0 (C10's history check also catches this change)"),
    "C08f": ("C08", "sorter_chrom splits names with a regex that stops at the first inner digit", "two contigs of one family (chrUn_KI270302v1 / chrUn_KI270304v1, GL000191.1 / GL000192.1) with interleaving starts", "caught", None),
    "C11f": ("C11", "two cooperating edits: kept bins renumbered only when some were dropped; HMM states attached with a fresh index", "hmm-germline on an array with non-default row labels and no filtered bin", "caught", None),
    "C13f": ("C13", "the all-N-line shortcut closes the open run only `if run_start:`", "a sequence whose first run starts at 0, ends at a line break and is followed by an all-N line", "caught", None),
    "C15f": ("C15", "PAR masks built as a fresh-index Series and combined by label", "center_all with skip_low and a PAR genome on a table with null-coverage bins (the filtered table has label gaps)", "caught", None),
    "C17f": ("C17", "bintest assigns the residuals back by position instead of by label", "segments covering every bin whose chromosomes come in another order than the bin table's", "missed", "C17 now lists the segment table's chromosomes in another order than the bin table on a third of the cases"),
    "C04g": ("C04", "match_ref_to_sample gains a positional shortcut guarded by np.allclose on the coordinates", "bins of a few hundred bases at coordinates >= 5e7, a reference with exactly the sample's row count (target-only), and a locally swapped / shifted / duplicated bin", "missed", "C04 now places bins at 2.4e8 and 3e9, and builds target-only references for samples without antitargets"),
    "C06g": ("C06", "subdivide computes bin edges with np.arange(float step)", "(length, avg_size) pairs whose quotient lands one ulp above the bin count, e.g. 34 / 5", "caught", None),
    "C07g": ("C07", "idx_ranges casts the query coordinates to int32", "a query coordinate >= 2^31", "missed", "C06 and C07 now move whole cases up the chromosome by 3e8, 2^31 -+ and 2^32 + 11 on half of the cases"),
    "C10g": ("C10", "shift_xx returns self when the sex cannot be inferred; genemetrics then writes NaN columns into the caller's array", "an array without chrX bins, sex not given, genemetrics with segments that carry extra columns", "missed", "C10 builds an autosome-only workspace on a third of the seeds and lets genemetrics take the column-rich segments"),
    "C12g": ("C12", "subdivide's last bin end computed as start + int(nbins * (span / nbins))", "regions cut into >= 11 bins with particular lengths", "caught", None),
    "C14g": ("C14", "enumerate_changes compares levels with np.isclose", "the cn filter with adjacent copy numbers >= 1e5 that differ by 1", "missed", "C14 now lifts whole tables to a base copy number of 1e5 / 1e6"),
    "C02h": ("C02", "absolute_threshold rounds r*2^log2 to 6 decimals before the ceiling above the last threshold", "a log2 within ~1e-7 above an integer crossing log2(k/r)", "caught", None),
    "C09h": ("C09", "log2 of the depth clipped at -20 (depth.clip(lower=2^-20)) in both algorithms", "a bin whose counted reads give a depth below 2^-20, i.e. more than a million bin bases per aligned base", "missed", "C09 now draws, one case in six, a 3e8-base contig with 1e8-base bins and 1..8 reads"),
    "C13h": ("C13", "do_access subtracts all exclude files in one pass after heapq.merge of their coordinate tuples", ">= 2 exclude files with interleaved rows on sequence names whose natural and string orders differ", "caught", None),
    "C15h": ("C15", "compare_sex_chromosomes caps the per-chromosome ratio with min(ratio, 1e4), turning the numpy bool into a Python bool that ~ maps to -2", "a clean male sample without chrY rows and enough chrX bins for the ratio to reach the cap", "caught", None),
    "C16h": ("C16", "segment_mean treats weights whose sum is np.isclose to 0 as absent", "a gene whose bin weights sum to less than 1e-8 (unequal weights, unequal log2)", "missed", "C16 and C19 now multiply every weight of a case by a common factor (1e-10, 1e-12, 1e6 / 2^-40, 2^-34, 2^20)"),
    "C18h": ("C18", "read_vcf casts start/end to int32", "a VCF record at POS >= 2^31", "missed", "C18 now moves records and ranges up the contig by 2.4e8 or 2^31+7 on a third of the cases"),
    "C19h": ("C19", "weighted_median's exactly-half tolerance scaled by log2(n) instead of n", "even length >= ~110 with a common non-dyadic weight and distinct middle values", "missed", "C19 now draws vectors of 100..3001 values for the weighted estimators, equal weights from ten constants"),
    "C20h": ("C20", "merge_samples compares bin coordinates with np.allclose", "a later sample whose bins differ by 1 bp at coordinates >= 1e5", "missed", "C20 now places the shared bins of a jtv/cdt case at 2.4e8 or 2^31+7 on a third of the cases"),

    "C01h": ("C01", "do_call casts cn / cn1 with astype(np.int32)", "r*2^log2/purity >= 2^31 (e.g. ploidy 2 with log2 = 30, inside the stated [-30, 30])", "caught", None),
    "C05h": ("C05", "load_sample_block compares start/end with np.allclose(rtol=1e-9, atol=0)", "bin coordinates >= 1e9 and a later coverage file whose start or end is off by 1..4 bp", "missed", "C05 now places FASTA-less panels at 2.4e8 / 2^31+7 (negative cohorts also at 2^32+11)"),
    "C11h": ("C11", "by_arm measures the centromere gap start-to-start (np.diff of the starts)", "bins of >= 1e5 bases on a chromosome of >= 102 bins", "missed", "C11 now scales the bin sizes by 1, 60 or 250 (low-pass WGS-sized bins)"),
    "C17h": ("C17", "z_prob computes the two-sided tail as 2*(1 - cdf(|z|))", "a bin more than ~8.3 sd from its segment mean (p below 1e-16)", "missed", "C17 now compares the adjusted p-values relatively (1e-7) and draws alphas of 1e-16 and 1e-40"),
    "C03i": ("C03", "transfer_fields picks the rows of the end-point stretch by index label", "haar on an arm whose surviving bins still hold a >= 100 kb gap (a second wide gap, or an interior null run dropped by skip_low) with > 50 bins on each side: the re-split leaves duplicate row labels", "missed", "C03 now plants a second centromere-sized gap and interior null-coverage runs spanning > 100 kb; 960 quick examples"),
    "C04i": ("C04", "_width2wing derives the half-window from ceil(n*width)//2", "a bin class of more than 36 usable bins with a correction enabled", "caught", None),
    "C06i": ("C06", "GenomicArray keeps start/end columns of any integer dtype (unsigned ones are no longer converted to int64)", "start/end arriving as uint32 / uint64 with overlapping rows, or resize_ranges beyond a start", "missed", "C06 and C07 now hand over start/end as int32, uint32, uint64 or float64 columns on half of the cases"),
    "C07i": ("C07", "into_ranges tests ser.count() == 0 instead of len(ser) == 0", "a query range hit only by rows whose value is NaN, with a non-NaN default or a supplied function", "missed", "C07 now plants missing values in the float column (sparse on a quarter of the cases, the whole column on an eighth); the supplied function counts hits and missing values"),
    "C08i": ("C08", "write() casts whole-valued float columns to int64", "an extra float column whose values are all whole with one >= 2^63", "caught", None),
    "C10i": ("C10", "_do_segmentation starts from the caller's array instead of a copy", "an HMM method with the outlier filter off (0), skip_low off and no zero-weight bin: the caller's bins gain a probes column", "missed", "C10's segment step now draws the outlier filter (10 / 3 / off), min_weight and the hmm / hmm-tumor methods"),
    "C12i": ("C12", "by_shared_chroms single-chromosome shortcut fires when the other table merely contains that chromosome", "an access table listing exactly one chromosome and baits on further contigs", "caught", None),
    "C14i": ("C14", "do_call stops applying the post-call filters once fewer than two segments are left", "a table of exactly one segment (or one that cn/ci/sem collapse to one row) with cn 1..4 and the ampdel filter", "caught", None),
    "C01j": ("C01", "absolute_pure computes per chromosome block and writes consecutive slices", "clonal call without purity (or purity 1) on a table whose chromosomes are not contiguous blocks (rows interleaved / shuffled)", "missed", "C01 and C02 now hand the rows over interleaved, reversed, shuffled or with stacked tail rows on half of the cases (gen.row_order; not with the cn filter, which presupposes genomic order)"),
    "C02j": ("C02", "absolute_threshold looks the reference copies up once per chromosome block", "threshold call on a table whose chromosomes are not contiguous blocks and that mixes autosomes with haploid sex chromosomes", "missed", "see C01j"),
    "C05j": ("C05", "do_reference tests `if not female_samples` instead of `is None`", "sexes given as male and a sample that guess_xx calls female", "caught", None),
    "C09j": ("C09", "pileup chunks collected with as_completed and concatenated in lexicographic file-name order", "pileup with > 1 process and >= 11 chunks", "caught", None),
    "C11j": ("C11", "by_arm emits arms in genome order (sorted groupby) while callers attach per-arm results by position", "hmm-germline on a table whose chromosome blocks are not in genome order", "missed", "C11 now reverses or rotates the chromosome blocks on a third of the multi-chromosome cases"),
    "C13j": ("C13", "by_shared_chroms single-chromosome shortcut with .any() instead of .all()", "regions on exactly one sequence and an exclude file naming further sequences", "caught", None),
    "C15j": ("C15", "center_all(by_chrom) cuts the table wherever the chromosome name changes between consecutive rows", "a table whose rows are not grouped by chromosome (stacked panels, shuffled rows)", "missed", "C15's centring cases now use gen.row_order"),
    "C16j": ("C16", "group_by_genes weight-averages the depth only when all weights are non-zero", "a reported gene with some (not all) bin weights exactly 0", "missed", "C16 now plants exact zero weights inside genes (never a whole group)"),
    "C17j": ("C17", "on_array's trivial-case shortcut extended to constant arrays (mse of constant non-zero deviations becomes 0)", "mse requested and a segment whose bins share one log2 value different from the segment's", "caught", None),
    "C18j": ("C18", "load_het_snps drops tumour-only records only when some but not all records are tumour-only", "a paired VCF in which every record surviving the filters is tumour non-reference / normal reference", "missed", "C18 now asserts that a tumour-only record is never returned (outside the genotype-less-normal workaround)"),
    "C19j": ("C19", "_width2wing no longer clamps the wing to len(x) - 1", "a signal of exactly 2 values", "caught", None),
    "C20j": ("C20", "export_seg collects the samples in a dict keyed by sample ID", "two input files with the same sample ID", "caught", None),
    "C01k": ("C01", "verify_sample_sex (cmdutil) applies the stated sex only inside the mismatch branch, skipped when the sex cannot be guessed", "`call -m clonal --purity p<1 -x female` on a table with Y rows and no X rows", "missed", "the command-line tier was new and used cnvkit's own verify_sample_sex on the library side; it now restates the documented rule (stated sex, else guessed)"),
    "C03k": ("C03", "_cmd_segment drops low-coverage bins itself before do_segmentation when --drop-low-coverage is given", "`segment --drop-low-coverage` on a .cnr with null-coverage bins at an arm edge / with weight", "caught", None),
    "C05k": ("C05", "_cmd_reference maps -x to female only for 'f' / 'female' (the accepted spelling 'x' becomes male)", "`reference -x x` with female normals", "missed", "the command-line tier now draws every accepted spelling of -x; half of C05's cases go through the command"),
    "C12k": ("C12", "tabio's interval-list sniffing pattern makes the name column optional, so a BED4 whose first name is '-' is read as 1-based", "`target` / `antitarget` on BED4 files whose first region is named '-'", "missed", "C12's command-line tier now compares the commands with the library on the in-memory tables the files were written from, so input reading is part of the comparison"),
    "C14k": ("C14", "_cmd_call de-duplicates --filter by walking a constant tuple, which reorders the filters (ampdel before cn)", "`call --filter cn --filter ampdel` with equal-cn runs around a neutral one", "caught", None),
    "C16k": ("C16", "_cmd_genemetrics drops low-coverage bins itself before do_genemetrics when --drop-low-coverage is given", "`genemetrics --drop-low-coverage` and a gene with a null-coverage bin", "caught", None),
    "C17k": ("C17", "_cmd_segmetrics treats --alpha above 0.5 as a confidence level (1 - alpha)", "`segmetrics --pi/--ci --alpha 0.6..1`", "caught", None),
    "C20k": ("C20", "verify_sample_sex (cmdutil) drops the stated sex when the sex cannot be guessed", "`export bed --show variant` / `export vcf` with -x female on segments with Y rows and no non-PAR X rows", "missed", "see C01k"),
    "C02l": ("C02", "csvstring (the type of call -t/--thresholds) tokenises with a regex that knows no exponent", "`call -t=...` with a threshold spelled in scientific notation (5e-05)", "caught", None),
    "C04l": ("C04", "_cmd_fix switches the edge and rmask corrections off when the antitarget file is empty", "`fix` with a header-only antitarget coverage file and edge correction left on", "caught", None),
    "C09l": ("C09", "_cmd_coverage passes min_mapq - 1 to do_coverage in pileup mode", "`coverage -q N` (N >= 1, no --count) and a read with MAPQ N-1", "caught", None),
    "C13l": ("C13", "_cmd_access forwards -s only when it is truthy (0 falls back to do_access's default 5000)", "`access -s 0` on a FASTA with gaps shorter than 5000", "caught", None),
    "C15l": ("C15", "_cmd_call no longer passes diploid_parx_genome to center_all", "`call --center EST --diploid-parx-genome G` on a table with PAR-X bins", "missed", "C15's centring cases now also go through `call --center ... -m none` (command-line tier)"),
    "C01m": ("C01", "chr_x_label returns 'chrX' only when a row named chrX exists (chr_y_label derives from it)", "a chr-named table with chrY rows and no chrX row, clonal call with purity < 1", "missed", "C01 and C02 now drop every chromosome-X row from one table in six"),
    "C02m": ("C02", "GenomicArray.__setitem__ turns a boolean row mask into row labels before .loc", "BAF given, a no-BAF segment, and repeated row labels (per-chromosome pieces concatenated without renumbering)", "missed", "C01 (without filters) and C02 now give one table in eight labels that restart at 0 on every chromosome"),
    "C03m": ("C03", "segment_mean's skip_low default flipped to True (only segmentation/none relies on the default)", "method none, skip_low off, a null-coverage bin with weight", "caught", None),
    "C04m": ("C04", "sorter_chrom split by a regex whose text part stops at the next digit", "two contigs of one family (chr1_KI270706v1_random / ...707...) with interleaving starts", "missed", "C04 now appends such a pair of unplaced contigs to one panel in five"),
    "C05m": ("C05", "load_sample_block compares start, end and gene column-wise and no longer the chromosome", "a coverage file with the same coordinates under the other naming style", "missed", "C05's negatives now include a file restyled chr1 <-> 1"),
    "C06m": ("C06", "by_shared_chroms fast path whenever the first table has one chromosome (empty frame instead of None for the other)", "a.subtract(b) with a on one chromosome (>= 2 rows) and b non-empty elsewhere", "caught", None),
    "C07m": ("C07", "by_shared_chroms fast path tested with .all() on the other table's chromosome column (true for an empty table)", "an empty searched table and >= 2 queries on one chromosome, keep_empty on", "caught", None),
    "C08m": ("C08", "sorter_chrom strips the prefix with str.removeprefix('chr') (case-sensitive)", "Chr1 / CHR1 style names with a number >= 10 or X/Y/M", "missed", "C08 now also draws the Chr and CHR prefixes"),
    "C09m": ("C09", "--count filters reads with a flag mask that also holds 0x800 (supplementary)", "a supplementary read that is otherwise countable", "caught", None),
    "C10m": ("C10", "ensure_path finds earlier copies with an unescaped glob of the path", "a path with [...] in a file or directory name and >= 3 writes", "missed", "C10's write cycles now use names with brackets, spaces, * ? {} and several dots"),
    "C11m": ("C11", "savgol widens its window to ceil(total_width/100) (even windows shift the signal)", "hmm-germline, >= 2 chromosomes with ~1500+ bins in total and one of > 700 bins", "caught", None),
    "C12m": ("C12", "resize_ranges drops zero-width rows before padding", "antitarget given a bait table with a zero-width row away from other baits", "missed", "C12 now also feeds antitarget the raw bait table (a third of the cases)"),
    "C13m": ("C13", "_subtraction keeps pieces with end >= start", "exclude rows that abut exactly inside an accessible region", "caught", None),
    "C14m": ("C14", "squash_region drops zero-weight rows of a merged run before summing", "a merged run with a zero-weight segment that has probes", "caught", None),
    "C15m": ("C15", "every PAR start in params raised by one (1-based GRC numbers)", "a chrX bin starting exactly at a PAR start, with a PAR genome", "missed", "C15's PAR bins now include ones flush with each documented boundary"),
    "C16m": ("C16", "by_shared_chroms fast path with .any() on the other table's chromosomes", "genemetrics with segments on one chromosome and bins on several", "missed", "C16 now restricts one segment table in four to a single chromosome"),
    "C17m": ("C17", "bintest recognises off-target bins by the name Antitarget only (Background no longer)", "bintest --target on a table whose off-target bins are called Background", "caught", None),
    "C18m": ("C18", "heterozygous() returns self on an all-het table and baf_by_ranges writes the mirrored / boosted values in place", "a BAF question with above_half / tumor_boost followed by another question on the same table", "missed", "C18 now asserts that baf_by_ranges leaves the variant table untouched"),
    "C19m": ("C19", "biweight_location's convergence tolerance made relative to the estimate's magnitude", "data centred away from zero whose iteration needs more than one step", "caught", None),
    "C20m": ("C20", "chr_x_label by presence of a chrX row (same edit as C01m)", "export bed --show variant / export vcf on chr-named segments with chrY and no chrX", "caught", None),
}


def main():
    rows = []
    for sid in sorted(SEEDS, key=lambda k: (k[:3], k[3:])):
        pid, what, needs, first, strengthened = SEEDS[sid]
        d = os.path.join(HERE, "seeded", sid)
        if not os.path.isdir(d):
            continue
        conf = open(os.path.join(d, "confirm.txt")).read().strip() if os.path.exists(os.path.join(d, "confirm.txt")) else ""
        m = re.search(r"demo_clean=(\d+) demo_patched=(\d+) tests: baseline: (\d+)/(\d+)", conf)
        chk = re.search(r"checks: *(\S+):exit=(\d)", conf)
        meta = {
            "id": sid, "property": pid, "change": what, "needs_to_manifest": needs,
            "written_by": "independent sub-agent given only the property text and a scratch worktree",
            "confirmed": {
                "how": "tools/seedcheck.sh: fresh scratch worktree of /repo HEAD; demo on the clean tree; git apply patch.diff; demo again; "
                       "the repository's 61 baseline tests with PYTHONPATH at the worktree; ./check <ID> --tier quick with VERIF_REPO at the worktree",
                "demo_exit_clean_tree": int(m.group(1)) if m else None, "demo_exit_with_change": int(m.group(2)) if m else None,
                "baseline_tests_passing_with_change": f"{m.group(3)}/{m.group(4)}" if m else None,
                "check_exit_with_change": int(chk.group(2)) if chk else None,
            },
            "first_outcome": first, "strengthening": strengthened,
            "final_outcome": "caught" if chk and chk.group(2) == "1" else "MISSED",
        }
        json.dump(meta, open(os.path.join(d, "meta.json"), "w"), indent=1)
        rows.append(f"| {sid} | {pid} | {what} | {needs} | {first} | {meta['final_outcome']} |")
    print("| seed | property | change | needs | first run | now |\n|---|---|---|---|---|---|")
    print("\n".join(rows))


main()
