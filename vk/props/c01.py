"""C01 - clonal calls invert the purity/ploidy mixing model; cn is never negative."""
import math

import numpy as np
from hypothesis import strategies as st

ID = "C01"
LEVEL = "exploration"
RULE = (
    "(a) bounded-exhaustive grid: ploidy 1..6 x reference sex x sample sex x naming {chrX, X} x PAR genome {none, grch37, "
    "grch38} x 13 purities {0.01 .. 1.0, None}; one do_call(method='clonal') per configuration on a table with one row per "
    "(n in 0..12) x (autosome, X, Y, PAR1-X, PAR2-X, PAR1-Y, PAR2-Y) whose log2 is log2((p*n+(1-p)*x)/r) with r, x restated "
    "from the statement; (b) Hypothesis: the same with purity a float in [1e-6, 1] biased to the ends, and arbitrary log2 in "
    "[-30, 30] (plus values at rounding boundaries) with any purity/ploidy/method/filter for the non-negativity clause. "
    "Non-trivial = a configuration containing a row with n != x or a sex-chromosome/PAR row (all grid cases are); distinct = distinct case JSON."
)
CLI_SHARE = 4  # one case in CLI_SHARE also goes through the command line (vk/cli.py)
QUICK = {"examples": 3200, "shards": 16, "budget_s": 300}
THOROUGH = {"examples": 32000, "shards": 16, "budget_s": 2400}
EXHAUSTIVE = {"quick": True, "thorough": True}
ASSUMPTIONS = [
    "purities below 1e-6 are not generated: the inversion divides a rounding error of ~1e-16*x by p",
    "r and x follow the statement: autosome r=x=ploidy; X: r=ploidy//2 (male reference) else ploidy, x=ploidy (female sample) else ploidy//2; "
    "Y: r=ploidy//2, x=0 (female) else ploidy//2; with a PAR genome PAR-X is autosomal and PAR-Y has r=x=0",
    "rows with r=0 or a non-positive mixture carry only the non-negativity clause (the premise is undefined there)",
    "cn is the nearest integer: values whose fractional part is within 1e-9 of .5 accept either neighbour",
    "the rewritten-log2 clause is asserted for even ploidy only, as the statement says",
]

PAR = {
    "grch37": {"PAR1X": (60000, 2699520), "PAR2X": (154931043, 155260560), "PAR1Y": (10000, 2649520), "PAR2Y": (59034049, 59363566)},
    "grch38": {"PAR1X": (10000, 2781479), "PAR2X": (155701382, 156030895), "PAR1Y": (10000, 2781479), "PAR2Y": (56887902, 57217415)},
}
CLASSES = ["auto", "X", "Y", "PAR1X", "PAR2X", "PAR1Y", "PAR2Y"]
PURITIES = [0.01, 0.05, 0.1, 0.25, 1 / 3, 0.5, 0.65, 0.8, 0.9, 0.99, 0.999999, 1.0, None]


def ref_exp(cls, ploidy, male_ref, female, par):
    """(r, x) restated from the statement."""
    if cls == "auto":
        return ploidy, ploidy
    on_x = cls in ("X", "PAR1X", "PAR2X")
    if par is not None and cls in ("PAR1X", "PAR2X"):
        return ploidy, ploidy
    if par is not None and cls in ("PAR1Y", "PAR2Y"):
        return 0, 0
    if on_x:
        return (ploidy // 2 if male_ref else ploidy), (ploidy if female else ploidy // 2)
    return ploidy // 2, (0 if female else ploidy // 2)


def place(cls, par_for_coords, chr_prefix, k):
    """(chromosome, start, end) of the k-th row of a class; PAR rows sit inside the documented PAR coordinates of
    `par_for_coords` (grch37 when the call itself uses no PAR genome)."""
    g = PAR[par_for_coords or "grch37"]
    pre = "chr" if chr_prefix else ""
    if cls == "auto":
        # every other autosomal row sits at coordinates that would be pseudo-autosomal on a sex chromosome (PAR2-Y,
        # PAR1-X, PAR2-X windows in turn): the PAR rules concern X and Y only (seeded change C01o let the PAR2 coordinate
        # test escape the chromosome test through operator precedence)
        if k % 2 == 1:
            lo, _hi = g[["PAR2Y", "PAR1X", "PAR2X"][(k // 2) % 3]]
            return pre + "1", lo + 100 * k, lo + 100 * k + 90
        return pre + "1", 1000 + 1000 * k, 1500 + 1000 * k
    if cls in ("X", "Y"):
        if k % 4 == 2:
            # inside the other sex chromosome's PAR2 window: an ordinary bin of this chromosome
            lo, _hi = g["PAR2Y" if cls == "X" else "PAR2X"]
            return pre + cls, lo + 1000 * (k // 4) + 10, lo + 1000 * (k // 4) + 100
        if k % 4 == 1:
            # abutting the end of PAR1 from outside: an ordinary sex-chromosome bin
            hi1 = g["PAR1" + cls][1]
            return pre + cls, hi1 + 1000 * (k // 4), hi1 + 1000 * (k // 4) + 90
        if k % 4 == 3:
            # abutting the start of PAR2 from outside
            lo2 = g["PAR2" + cls][0]
            return pre + cls, lo2 - 1000 * (k // 4) - 90, lo2 - 1000 * (k // 4)
        # well outside every PAR of both builds
        return pre + cls, 20_000_000 + 1000 * k, 20_000_500 + 1000 * k
    lo, hi = g[cls]
    chrom = pre + cls[-1]
    if k % 3 == 1:
        # from the far side: the first such row ends flush with the PAR end (half-open: still inside)
        e = hi - 1000 * (k // 3)
        return chrom, e - 90, e
    s = lo + 100 * k  # the first row starts flush with the PAR start
    return chrom, s, min(s + 90, hi)


def enumerate_cases(tier):
    for ploidy in range(1, 7):
        for male_ref in (False, True):
            for female in (False, True):
                for chr_prefix in (True, False):
                    for par in (None, "grch37", "grch38"):
                        for purity in PURITIES:
                            yield {"kind": "grid", "ploidy": ploidy, "male_ref": male_ref, "female": female,
                                   "chr": chr_prefix, "par": par, "purity": purity}


purity_st = st.one_of(
    st.floats(1e-6, 1.0), st.floats(1e-6, 1e-3), st.floats(0.9, 1.0),
    st.sampled_from([1e-6, 0.5, 1.0]),
)


@st.composite
def strategy(draw):
    kind = draw(st.sampled_from(["inv", "nonneg", "nonneg"]))
    case = {"kind": kind, "ploidy": draw(st.integers(1, 6)), "male_ref": draw(st.booleans()),
            "female": draw(st.booleans()), "chr": draw(st.booleans()),
            "par": draw(st.sampled_from([None, "grch37", "grch38"]))}
    if kind == "inv":
        case["purity"] = draw(purity_st)
        return case
    case["purity"] = draw(st.one_of(st.none(), purity_st))
    case["method"] = draw(st.sampled_from(["clonal", "clonal", "threshold"]))
    case["filter_cn"] = draw(st.booleans())
    rows = []
    for _ in range(draw(st.integers(1, 14))):
        cls = draw(st.sampled_from(CLASSES))
        v = draw(st.one_of(
            st.floats(-30, 30), st.floats(-8, 3),
            st.builds(lambda m, d: math.log2(max(m + 0.5 + d, 1e-9) / 2.0), st.integers(0, 13), st.sampled_from([-1e-12, 0.0, 1e-12])),
        ))
        rows.append([cls, v])
    case["rows"] = rows
    return case


def nontrivial(case):
    return True


def classify(case):
    from vk import gen

    labs = ["kind:" + case["kind"], "ploidy:%d" % case["ploidy"], "par:" + str(case["par"]), gen.index_label(gen.spec_for(case))]
    p = case.get("purity")
    labs.append("purity:" + ("none" if p is None else "1" if p == 1.0 else "<1e-3" if p < 1e-3 else ">0.99" if p > 0.99 else "mid"))
    if case["kind"] == "nonneg":
        labs.append("method:" + case["method"] + ("+cnfilter" if case["filter_cn"] else ""))
    return labs


def known(case, v):
    return None


def _build(rows_spec, case):
    """rows_spec: list of (cls, log2). Returns CopyNumArray in genomic order and the row specs in that order."""
    import pandas as pd
    from cnvlib.cnary import CopyNumArray

    recs = []
    counters = {}
    for cls, v in rows_spec:
        k = counters.get(cls, 0)
        counters[cls] = k + 1
        chrom, s, e = place(cls, case["par"], case["chr"], k)
        recs.append((chrom, s, e, "G", float(v), 10, 1.0, cls))
    order = {"1": 0, "X": 1, "Y": 2}
    idx = sorted(range(len(recs)), key=lambda i: (order[recs[i][0].replace("chr", "")], recs[i][1], recs[i][2]))
    from vk import gen

    # the calls are a per-row function: half of the cases hand the rows over interleaved, reversed, shuffled or with a
    # few autosomal rows stacked at the end (seeded change C01j wrote per-chromosome results into consecutive slices)
    # one table in six has no chromosome-X row at all (Y-only / autosomes + Y panels): the naming style and the Y label must
    # not hinge on an X row being present (seeded changes C01m / C20m derived the labels from the presence of a "chrX" row)
    if gen.pick(case, "noX", 6) == 0:
        idx = [i for i in idx if recs[i][0].replace("chr", "") != "X"]
    # - not with the cn filter, which merges *adjacent* rows and so presupposes genomic order
    if not case.get("filter_cn"):
        perm = gen.row_order(case, [recs[i][0] for i in idx])
        idx = [idx[j] for j in perm]
    recs = [recs[i] for i in idx]
    df = pd.DataFrame.from_records([r[:7] for r in recs],
                                   columns=["chromosome", "start", "end", "gene", "log2", "probes", "weight"])
    # an autosome row always leads, so naming detection sees the chosen style
    from vk import gen

    dup = gen.pick(case, "dup", 8) == 0 and "row_labels" not in case and not case.get("filter_cn")
    gen.relabel(df, "perchrom" if dup else gen.spec_for(case))  # repeated labels: accepted by do_call without filters
    return CopyNumArray(df, {"sample_id": "s"}), [r[7] for r in recs], idx


def _near_half(x):
    return abs((x - math.floor(x)) - 0.5) < 1e-9


def check_case(case):
    from cnvlib import call

    out = []
    ploidy, male_ref, female, par, purity = case["ploidy"], case["male_ref"], case["female"], case["par"], case.get("purity")

    def bad(clause, detail):
        out.append({"clause": clause, "detail": f"{detail}; config={ {k: case[k] for k in ('ploidy', 'male_ref', 'female', 'chr', 'par', 'purity')} }"})

    if case["kind"] in ("grid", "inv"):
        specs = []
        truth = []
        for cls in CLASSES:
            r, x = ref_exp(cls, ploidy, male_ref, female, par if (purity is not None and purity < 1.0) else None)
            for n in range(13):
                p = 1.0 if purity is None else purity
                mix = p * n + (1 - p) * x
                if r > 0 and mix > 0:
                    v = math.log2(mix / r)
                    specs.append((cls, v))
                    truth.append((cls, n, r, x, v))
        if not specs or not any(c == "auto" for c, _ in specs):
            return out
        cnarr, classes, idx = _build(specs, case)
        truth = [truth[i] for i in idx]
        before = cnarr.data.copy()
        res = call.do_call(cnarr, None, "clonal", ploidy, purity, male_ref, female, par, None)
        if len(res) != len(cnarr):
            bad("rowcount", f"{len(cnarr)} rows in, {len(res)} out")
            return out
        cn = res["cn"].values
        newlog = res["log2"].values
        for i, (cls, n, r, x, v) in enumerate(truth):
            if cn[i] != n:
                bad("inversion", f"class {cls} n={n} r={r} x={x} log2={v!r}: cn={cn[i]!r}")
                break
        for i, (cls, n, r, x, v) in enumerate(truth):
            if purity is not None and purity < 1.0:
                if ploidy % 2 == 0:
                    # ratio of a pure sample with n copies against that reference, floored at 0.001 of ploidy:
                    want = math.log2(max(n / ploidy, 1e-3)) + (math.log2(ploidy / r))
                    tol = 1e-9 + 1e-13 / purity
                    if abs(newlog[i] - want) > tol:
                        bad("rewritten-log2", f"class {cls} n={n} r={r}: log2 rewritten to {newlog[i]!r}, expected {want!r}")
                        break
            else:
                if newlog[i] != v:
                    bad("log2-unchanged", f"class {cls} n={n}: log2 {v!r} became {newlog[i]!r} without purity")
                    break
        if not cnarr.data.equals(before):
            bad("input-modified", "do_call changed its input array")
    else:
        specs = [(cls, v) for cls, v in case["rows"]]
        if not any(c == "auto" for c, _ in specs):
            specs = [("auto", 0.0)] + specs
        cnarr, classes, idx = _build(specs, case)
        vals = [specs[i][1] for i in idx]
        filters = ["cn"] if case["filter_cn"] else None
        res = call.do_call(cnarr, None, case["method"], ploidy, purity, male_ref, female, par, filters)
        cn = np.asarray(res["cn"].values, dtype=float)
        if not case["filter_cn"] and len(res) != len(cnarr):
            bad("rowcount", f"{len(cnarr)} rows in, {len(res)} out")
        if not np.isfinite(cn).all() or (cn < 0).any() or (cn != np.round(cn)).any():
            j = int(np.nonzero(~np.isfinite(cn) | (cn < 0) | (cn != np.round(cn)))[0][0])
            bad("cn-nonnegative-integer", f"method={case['method']} filters={filters}: cn={cn[j]!r} (rows: {list(zip(classes, vals))[:8]})")
        # without a purity and without filters the clonal call is the nearest integer to r*2^log2
        if case["method"] == "clonal" and (purity is None or purity == 1.0) and not case["filter_cn"]:
            for i, (cls, v) in enumerate(zip(classes, vals)):
                r, _x = ref_exp(cls, ploidy, male_ref, female, None)
                t = r * 2.0 ** v
                ok = cn[i] == round(t) or (_near_half(t) and abs(cn[i] - t) <= 0.5 + 1e-9)
                if not ok:
                    bad("pure-nearest-integer", f"class {cls} log2={v!r} r={r}: cn={cn[i]!r}, r*2^log2={t!r}")
                    break
                if res["log2"].values[i] != v:
                    bad("log2-unchanged", f"log2 {v!r} became {res['log2'].values[i]!r} without purity")
                    break
    # ---- command-line tier (a quarter of the cases): `cnvkit.py call` on the written table = do_call on the same file,
    # with the sample sex given on the command line
    from vk import gen

    if gen.pick(case, "cli", 4) == 0 and not out:
        import shutil
        import tempfile

        from vk import cli

        cli.use_case(case)

        d = tempfile.mkdtemp(prefix="vk01.")
        try:
            method = "clonal" if case["kind"] != "nonneg" else case["method"]
            diff = cli.call_diff(cnarr, d, method, ploidy, purity, male_ref, female, par,
                                 ["cn"] if case.get("filter_cn") else None, None)
            if diff:
                bad("cli:call", diff)
        finally:
            shutil.rmtree(d, ignore_errors=True)
    return out
