"""C06 - interval arithmetic (merge/flatten/subtract/intersect/subdivide/resize) is base-exact."""
import math

from hypothesis import strategies as st

from vk import gen
from vk import models as M

import os as _os

ENUM_TOP = int(_os.environ.get("VERIF_ENUM_TOP", "6"))  # largest coordinate of the thorough enumeration
ID = "C06"
LEVEL = "exploration"
RULE = (
    "(a) bounded-exhaustive: every pair (A, B) of multisets of <=2 intervals over coordinates 0..4 (quick; 66x66 "
    "pairs) or <=2 x <=3 over 0..6 (thorough; 253x2024 pairs), each in 4 variants (plain; gene column + a row on "
    "a second chromosome in A; in B; in both), plus every multiset of <=3 intervals over 0..6 for the unary "
    "operations with a grid of bp/avg/min/resize values; (b) Hypothesis: relation-biased tables "
    "(disjoint/abutting/overlapping/nested/duplicate) of up to 40 rows, coordinates to 1e6, extra columns, "
    "chromosomes present in one table only, arbitrary bp, avg_size, min_size, resize amounts with and without "
    "chromosome sizes. Half of the cases are moved to 3e8 / around 2^31 / 2^32; start/end arrive as int64, int32, "
    "uint32, uint64 or float64 columns; row labels default, shifted, stepped or repeated. Oracle: per-chromosome "
    "base-pair run algebra (union / difference / intersection of half-open intervals) written independently. "
    "Non-trivial = some row overlaps, abuts or nests with a row of the other table (pair) or of its own table "
    "(unary); distinct = distinct case JSON."
)
QUICK = {"examples": 1600, "shards": 16, "budget_s": 300}
THOROUGH = {"examples": 24000, "shards": 16, "budget_s": 3000}
EXHAUSTIVE = {"quick": False, "thorough": False}
ASSUMPTIONS = [
    "tables are given in tabio.read order (natural chromosome order, start, end) with start < end, as every cnvkit caller provides",
    "chromosome sizes passed to resize_ranges are >= every end on that chromosome",
    "round(length/avg) with a fractional part within 1e-9 of .5 accepts either neighbouring bin count",
    "the thorough enumeration covers the full 253x2024 pair scope (about an hour on 16 cores; VERIF_ENUM_TOP=5 gives the 136x816 scope in minutes) in the plain variant and a 1-in-8 stride of it in the three second-chromosome/gene variants",
]

CHR_A, CHR_B = "chr1", "chr2"


# ------------------------------------------------------------------ enumeration
def _tab(ivs, extra_chrom_row, gene):
    cols = ["chromosome", "start", "end", "rid"] + (["gene"] if gene else [])
    rows = []
    for i, (s, e) in enumerate(sorted(ivs)):
        rows.append([CHR_A, s, e, i] + (["g%d" % i] if gene else []))
    if extra_chrom_row:
        rows.append([CHR_B, 1, 3, len(rows)] + (["gx"] if gene else []))
    return {"cols": cols, "rows": rows}


def enumerate_cases(tier):
    if tier == "quick":
        ivs = gen.intervals_upto(4)
        As = list(gen.multisets(ivs, 2))
        Bs = As
    else:
        ivs = gen.intervals_upto(ENUM_TOP)
        As = list(gen.multisets(ivs, 2))
        Bs = list(gen.multisets(ivs, 3))
    k = 0
    for a in As:
        for b in Bs:
            k += 1
            for v in range(4):
                if tier != "quick" and v and k % 8:
                    continue
                yield {"kind": "pair", "enum": True,
                       "A": _tab(a, v in (1, 3), v > 0), "B": _tab(b, v in (2, 3), v > 0)}
    # unary scope: every multiset of <=3 intervals over 0..6, with a parameter grid
    for a in gen.multisets(gen.intervals_upto(6), 3):
        for v in (0, 1):
            t = _tab(a, bool(v), bool(v))
            yield {"kind": "unary", "enum": True, "A": t, "bp": [0, 1, -1, 2, -2][len(a) % 5 if v else 0],
                   "avg": 1 + (sum(e for _, e in a) % 4), "min": [0, 1, 2, 3][sum(s for s, _ in a) % 4],
                   "rbp": [-2, -1, 0, 1, 3][(len(a) + sum(e - s for s, e in a)) % 5], "sizes": bool(v)}


# ------------------------------------------------------------------ hypothesis strategy
@st.composite
def strategy(draw):
    kind = draw(st.sampled_from(["pair", "pair", "unary"]))
    small = draw(st.integers(0, 3)) == 0
    colsA = ["rid"] + sorted(draw(st.sets(st.sampled_from(["gene", "weight", "probes", "strand"]))))
    A = draw(gen.interval_table(columns=colsA, max_rows=40, small=small, min_chroms=1))
    case = {"kind": kind, "A": A}
    if kind == "pair":
        case["B"] = draw(gen.interval_table(columns=["rid"], max_rows=30, small=small))
        # the trimmed intersection (whose row labels repeat) is fed on into the unary operations
        case["chain"] = draw(st.booleans())
    case["bp"] = draw(st.one_of(st.just(0), st.integers(-50, 50)))
    case["avg"] = draw(st.one_of(st.integers(1, 60), st.integers(1, 5000)))
    case["min"] = draw(st.one_of(st.just(0), st.integers(0, 80)))
    case["rbp"] = draw(st.one_of(st.integers(-40, 40), st.integers(-10 ** 5, 10 ** 5)))
    case["sizes"] = draw(st.booleans())
    case["size_slack"] = draw(st.sampled_from([0, 1, 17, 10 ** 5]))
    # row labels of the operands: default, shifted, stepped, or repeated (as concatenating library outputs leaves them)
    case["index"] = draw(st.sampled_from([None, None, [5, 1], [0, 3], "dup"]))
    return case


def _pair_relations(A, B):
    labs = set()
    a, b = gen.by_chrom(A), gen.by_chrom(B)
    for c in a:
        for (s1, e1) in a[c]:
            for (s2, e2) in b.get(c, []):
                if s2 == e1 or s1 == e2:
                    labs.add("abutting")
                elif s1 < e2 and s2 < e1:
                    if (s1, e1) == (s2, e2):
                        labs.add("duplicate")
                    elif (s1 <= s2 and e2 <= e1) or (s2 <= s1 and e1 <= e2):
                        labs.add("nested")
                    else:
                        labs.add("overlapping")
    return labs


def _self_relations(T):
    labs = set()
    for rows in gen.by_chrom(T).values():
        labs |= gen.table_relations(rows)
    return labs


def nontrivial(case):
    if case["kind"] == "pair":
        return bool(_pair_relations(case["A"], case["B"]))
    return bool(_self_relations(case["A"]))


def classify(case):
    labs = ["kind:" + case["kind"] + (":enum" if case.get("enum") else ":gen")]
    if case["kind"] == "pair":
        labs += ["AB:" + r for r in _pair_relations(case["A"], case["B"])]
        labs += ["B-self:" + r for r in _self_relations(case["B"])]
        ca, cb = set(gen.by_chrom(case["A"])), set(gen.by_chrom(case["B"]))
        if ca - cb:
            labs.append("chrom-only-in-A")
        if cb - ca:
            labs.append("chrom-only-in-B")
        if not case["B"]["rows"]:
            labs.append("B-empty")
    else:
        labs += ["A-self:" + r for r in _self_relations(case["A"])]
    if case.get("index"):
        labs.append("index:" + ("repeated-labels" if case["index"] == "dup" else "non-default"))
    if case.get("chain"):
        labs.append("chained-trim-output")
    return labs


def known(case, v):
    return None


# ------------------------------------------------------------------ checks
def _coords(df):
    return [(c, int(s), int(e)) for c, s, e in zip(df["chromosome"], df["start"], df["end"])]


def _chrom_order(table):
    seen = []
    for r in table["rows"]:
        if r[0] not in seen:
            seen.append(r[0])
    return seen


def _round_options(x):
    f = x - math.floor(x)
    if abs(f - 0.5) < 1e-9:
        return {int(math.floor(x)), int(math.floor(x)) + 1}
    return {int(math.floor(x + 0.5))}


OFFSETS = [0, 0, 0, 0, 3 * 10 ** 8, 2 ** 31 - 20, 2 ** 31 + 5, 2 ** 32 + 11]


def offset_of(case):
    """Coordinate offset of a generated case (0, chromosome-scale, or around 2^31 / 2^32): a pure function of the case JSON.
    The enumerated small scopes stay at 0."""
    import json
    import zlib

    if "offset" in case:
        return case["offset"]
    if case.get("enum"):
        return 0
    return OFFSETS[zlib.crc32(("off" + json.dumps(case, sort_keys=True, default=str)).encode()) % len(OFFSETS)]


def _shifted(case):
    import copy

    off = offset_of(case)
    if not off:
        return case
    c = copy.deepcopy(case)
    c["offset"] = 0
    for key in ("A", "B"):
        if key in c:
            for r in c[key]["rows"]:
                r[1] += off
                r[2] += off
    return c


def check_case(case):
    out = []

    def bad(clause, detail):
        out.append({"clause": clause, "detail": f"{detail}; A={case['A']['rows'][:8]} B={case.get('B', {}).get('rows', [])[:8]}"})

    case = _shifted(case)
    A = case["A"]
    # start/end arrive as int64, int32, unsigned or float64 columns (seeded change C06i left unsigned columns unconverted)
    ga = gen.to_garr(A, coord_dtype=gen.coord_dtype(case, A, "A"))
    _relabel(ga, case.get("index"))
    a_by = gen.by_chrom(A)
    chroms = _chrom_order(A)
    before = ga.data.copy()

    if case["kind"] == "pair":
        B = case["B"]
        gb = gen.to_garr(B, coord_dtype=gen.coord_dtype(case, B, "B"))
        _relabel(gb, case.get("index"))
        b_by = gen.by_chrom(B)
        # ---- subtract: per row of A, exactly the bases not in B, other fields kept
        res = ga.subtract(gb).data
        got = [tuple(r) for r in res[A["cols"]].itertuples(index=False)]
        exp = []
        for row in A["rows"]:
            c, s, e = row[:3]
            for ps, pe in M.run_minus([(s, e)], M.covered(b_by.get(c, []))):
                exp.append(tuple([c, ps, pe] + row[3:]))
        if [tuple(map(_norm, g)) for g in got] != [tuple(map(_norm, x)) for x in exp]:
            bad("subtract", f"a.subtract(b) = {got[:10]}, expected {exp[:10]}")
        # ---- trimmed intersection covers exactly A and B; every piece inside its own A row
        if len(A["rows"]):
            res = ga.intersection(gb, mode="trim").data
            got_by = {}
            rid_rows = {r[3]: r for r in A["rows"]}
            for r in res.itertuples(index=False):
                got_by.setdefault(r.chromosome, []).append((int(r.start), int(r.end)))
                src = rid_rows[int(r.rid)]
                if not (src[0] == r.chromosome and src[1] <= r.start < r.end <= src[2]):
                    bad("intersection-trim-row", f"piece {(r.chromosome, r.start, r.end)} not inside its source row {src[:3]}")
            for c in set(a_by) | set(got_by):
                want = M.run_and(M.covered(a_by.get(c, [])), M.covered(b_by.get(c, [])))
                have = M.covered(got_by.get(c, []))
                if M.covered(want) != have:
                    bad("intersection-trim", f"{c}: covers {have}, expected a AND b = {M.covered(want)}")
            if case.get("chain") and len(res) and not out:
                # feed the library's own output (row labels repeat, one per query range) into the unary operations
                order = {c: i for i, c in enumerate(chroms)}
                srt = res.assign(_k=[order[c] for c in res["chromosome"]]).sort_values(["_k", "start", "end"], kind="mergesort").drop(columns="_k")
                T = {"cols": A["cols"], "rows": [[_norm(v) for v in r] for r in srt[A["cols"]].itertuples(index=False)]}
                gt = ga.as_dataframe(srt)
                n0 = len(out)
                _unary(gt, T, case, bad)
                for v in out[n0:]:
                    v["clause"] = "chained:" + v["clause"]
    else:
        _unary(ga, A, case, bad)
    if not ga.data.equals(before):
        bad("input-modified", "operand table changed")
    return out


def _unary(ga, A, case, bad):
    """merge / flatten / total_range_size / subdivide / resize_ranges of `ga`, whose rows are A["rows"] (sorted)"""
    a_by = gen.by_chrom(A)
    chroms = _chrom_order(A)
    # ---- merge
    bp = case.get("bp", 0)
    res = ga.merge(bp=bp).data
    got = _coords(res)
    exp = []
    for c in chroms:
        rows = sorted(a_by[c])
        if bp == 0:
            exp += [(c, s, e) for s, e in M.covered(rows)]
        else:
            cur = None
            for s, e in rows:
                if cur is not None and s - cur[1] > -bp:
                    exp.append((c, cur[0], cur[1]))
                    cur = None
                if cur is None:
                    cur = [s, e]
                else:
                    cur[1] = max(cur[1], e)
            if cur is not None:
                exp.append((c, cur[0], cur[1]))
    if got != exp:
        bad("merge" if bp == 0 else "merge-bp", f"merge(bp={bp}) = {got[:10]}, expected {exp[:10]}")
    # ---- flatten
    res = ga.flatten().data
    got = _coords(res)
    exp = []
    for c in chroms:
        pts = sorted({p for s, e in a_by[c] for p in (s, e)})
        for rs, re_ in M.covered(a_by[c]):
            cut = [p for p in pts if rs <= p <= re_]
            exp += [(c, x, y) for x, y in zip(cut[:-1], cut[1:])]
    if got != exp:
        bad("flatten", f"flatten() = {got[:10]}, expected {exp[:10]}")
    # ---- total_range_size
    tot = int(ga.total_range_size())
    want = sum(M.total(M.covered(rows)) for rows in a_by.values())
    if tot != want:
        bad("total_range_size", f"{tot} != {want}")
    # ---- subdivide
    avg, mn = case.get("avg", 3), case.get("min", 0)
    res = ga.subdivide(avg, mn).data
    got = _coords(res)
    pos = 0
    okay = True
    for c in chroms:
        for rs, re_ in M.covered(a_by[c]):
            L = re_ - rs
            if L < mn:
                continue
            opts = {max(1, k) for k in _round_options(L / avg)}
            # take consecutive bins starting at rs
            bins = []
            cur = rs
            while pos < len(got) and got[pos][0] == c and got[pos][1] == cur and got[pos][2] <= re_ and cur < re_:
                bins.append(got[pos])
                cur = got[pos][2]
                pos += 1
            sizes = [b[2] - b[1] for b in bins]
            if cur != re_ or len(bins) not in opts or min(sizes) < 1 or max(sizes) - min(sizes) > 1:
                okay = False
                bad("subdivide", f"region {(c, rs, re_)} avg={avg} min={mn}: got bins {bins[:8]} (expected {sorted(opts)} equal bins covering it)")
                break
        if not okay:
            break
    if okay and pos != len(got):
        bad("subdivide", f"avg={avg} min={mn}: unexpected extra bins {got[pos:pos + 5]}")
    # ---- resize_ranges
    rbp = case.get("rbp", 0)
    sizes = None
    if case.get("sizes"):
        sizes = {c: max(e for _, e in a_by[c]) + case.get("size_slack", 0) for c in a_by}
    res = ga.resize_ranges(rbp, sizes).data
    got = [tuple(map(_norm, r)) for r in res[A["cols"]].itertuples(index=False)]
    exp = []
    for row in A["rows"]:
        c, s, e = row[:3]
        hi = sizes[c] if sizes else float("inf")
        s2 = min(max(s - rbp, 0), hi)
        e2 = min(max(e + rbp, 0), hi)
        if rbp < 0 and e2 <= s2:
            continue
        exp.append(tuple(map(_norm, [c, s2, e2] + row[3:])))
    if got != exp:
        bad("resize_ranges", f"resize_ranges({rbp}, {sizes}) = {got[:8]}, expected {exp[:8]}")


def _relabel(garr, index):
    n = len(garr.data)
    if index is None or not n:
        return
    if index == "dup":
        garr.data.index = [i // 2 for i in range(n)]
    else:
        garr.data.index = [index[0] + index[1] * i for i in range(n)]


def _norm(x):
    try:
        import numpy as np

        if isinstance(x, (np.integer,)):
            return int(x)
        if isinstance(x, (np.floating,)):
            return float(x)
    except Exception:  # noqa: BLE001
        pass
    return x
