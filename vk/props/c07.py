"""C07 - range queries return exactly the overlapping / contained / clipped rows."""
import math

import numpy as np
from hypothesis import strategies as st

from vk import gen

import os as _os

ENUM_TOP = int(_os.environ.get("VERIF_ENUM_TOP", "6"))  # largest coordinate of the thorough enumeration
ID = "C07"
LEVEL = "exploration"
RULE = (
    "(a) bounded-exhaustive: every (table, queries) pair of multisets of <=2 rows x <=2 queries over coordinates "
    "0..4 (quick) or <=2 x <=3 over 0..6 (thorough), in 4 variants (second chromosome in "
    "neither/table/queries/both), all three modes x keep_empty, every in_range bound in {None, 0..max}; (b) "
    "Hypothesis: relation-biased tables up to 40 rows (nested, duplicate, abutting), queries that repeat/overlap, "
    "empty tables, single-chromosome fast path, non-default row index, in_range/in_ranges with start/end None or "
    "given, into_ranges over string/float columns with default / callable / constant summaries. Half of the cases "
    "are moved to 3e8 / around 2^31 / 2^32; start/end arrive as int64, int32, uint32, uint64 or float64 columns; "
    "the float column holds missing values on 3 cases in 8. Oracle: the textbook inequalities (outer: end > qs "
    "and start < qe; inner: start >= qs and end <= qe; trim: outer + clipping) evaluated row by row on a row-id "
    "column. Non-trivial = a query with a hit and a boundary-touching non-hit, or a nested/duplicated table, or a "
    "chromosome absent from one side."
)
QUICK = {"examples": 1200, "shards": 16, "budget_s": 300}
THOROUGH = {"examples": 16000, "shards": 16, "budget_s": 3000}
ASSUMPTIONS = [
    "tables and query tables are sorted (tabio.read order), start < end",
    "iter_ranges_of is exercised with outer and inner only: clipping a value column is meaningless and the code asserts on it",
    "in_range/in_ranges are called with chrom=None only on single-chromosome tables, as documented",
    "the enumeration covers the plain variant fully and a 1-in-4 (quick) / 1-in-8 (thorough) stride of the three second-chromosome variants",
]
MODES = ["outer", "inner", "trim"]
COLS = ["chromosome", "start", "end", "rid", "gene", "val"]


def _tab(ivs, extra, chrom="chr1"):
    rows = []
    for i, (s, e) in enumerate(sorted(ivs)):
        rows.append([chrom, s, e, i, "g%d" % (i % 2), float(i) + 0.5])
    if extra:
        rows.append(["chr2", 1, 3, len(rows), "gx", 9.0])
    return {"cols": COLS, "rows": rows}


def enumerate_cases(tier):
    if tier == "quick":
        ivs = gen.intervals_upto(4)
        As = list(gen.multisets(ivs, 2))
        Qs = As
        top = 4
    else:
        ivs = gen.intervals_upto(ENUM_TOP)
        As = list(gen.multisets(ivs, 2))
        Qs = list(gen.multisets(ivs, 3))
        top = ENUM_TOP
    k = 0
    for a in As:
        for q in Qs:
            k += 1
            for v in range(4):
                if v and k % (4 if tier == "quick" else 8):
                    continue
                bounds = [None] + list(range(top + 1))
                irs_, ire_ = bounds[k % len(bounds)], bounds[(k // len(bounds)) % len(bounds)]
                if irs_ is not None and ire_ is not None and ire_ <= irs_:
                    ire_ = None
                yield {"enum": True, "A": _tab(a, v in (1, 3)), "Q": _tab(q, v in (2, 3)),
                       "index": [0, 1], "ir": {"chrom": "chr1", "start": irs_, "end": ire_},
                       "irs": None, "summary": ["none", "callable", "const"][k % 3], "default": "NA"}


@st.composite
def strategy(draw):
    small = draw(st.booleans())
    A = draw(gen.interval_table(columns=["rid", "gene", "val"], max_rows=40, small=small,
                                chroms=("chr1", "chr2", "chrX")))
    qkind = draw(st.sampled_from(["free", "free", "derived"]))
    Q = draw(gen.interval_table(columns=["rid", "gene", "val"], max_rows=12, small=small,
                                chroms=("chr1", "chr2", "chrX", "chrY")))
    if qkind == "derived" and A["rows"]:
        # queries whose bounds coincide with row bounds of A (touching cases), possibly repeated
        rows = []
        n = draw(st.integers(1, 8))
        for i in range(n):
            r1 = A["rows"][draw(st.integers(0, len(A["rows"]) - 1))]
            same = [r for r in A["rows"] if r[0] == r1[0]]
            r2 = same[draw(st.integers(0, len(same) - 1))]
            pts = sorted({r1[1], r1[2], r2[1], r2[2]})
            s = pts[draw(st.integers(0, len(pts) - 2))]
            e = draw(st.sampled_from([p for p in pts if p > s]))
            rows.append([r1[0], s, e])
        order = {c: i for i, c in enumerate(("chr1", "chr2", "chrX", "chrY"))}
        rows.sort(key=lambda r: (order[r[0]], r[1], r[2]))
        Q = {"cols": COLS, "rows": [r + [i, "q%d" % i, float(i)] for i, r in enumerate(rows)]}
    chromsA = sorted({r[0] for r in A["rows"]}) or ["chr1"]
    chrom = draw(st.sampled_from(chromsA + ["chr2", "chrY"]))
    pts = sorted({p for r in A["rows"] if r[0] == chrom for p in (r[1], r[2])}) or [0, 5]
    bound = st.one_of(st.none(), st.sampled_from(pts), st.integers(0, pts[-1] + 5))
    ir = {"chrom": chrom, "start": draw(bound), "end": draw(bound)}
    if ir["start"] is not None and ir["end"] is not None and ir["end"] <= ir["start"]:
        ir["end"] = ir["start"] + 1
    k = draw(st.integers(1, 4))
    starts, ends = [], []
    for _ in range(k):
        s = draw(st.one_of(st.sampled_from(pts), st.integers(0, pts[-1] + 5)))
        e = s + draw(st.integers(1, 40))
        starts.append(s)
        ends.append(e)
    which = draw(st.sampled_from(["both", "both", "starts", "ends", "neither"]))
    irs = {"chrom": chrom, "starts": starts if which in ("both", "starts") else None,
           "ends": ends if which in ("both", "ends") else None}
    return {"A": A, "Q": Q, "index": [draw(st.integers(0, 50)), draw(st.integers(1, 3))], "ir": ir, "irs": irs,
            "summary": draw(st.sampled_from(["none", "callable", "const"])),
            "default": draw(st.sampled_from(["NA", "-"]))}


# ------------------------------------------------------------------ model
def select(rows, qs, qe, mode):
    """rows: list of (start, end, rid). qs/qe None = unbounded."""
    lo = -math.inf if qs is None else qs
    hi = math.inf if qe is None else qe
    out = []
    for s, e, rid in rows:
        if mode == "inner":
            if s >= lo and e <= hi:
                out.append((s, e, rid))
        else:
            if e > lo and s < hi:
                if mode == "trim":
                    out.append((max(s, lo), min(e, hi), rid))
                else:
                    out.append((s, e, rid))
    return out


def _rows_by_chrom(T):
    d = {}
    for r in T["rows"]:
        d.setdefault(r[0], []).append((r[1], r[2], r[3]))
    return d


def _nested(T):
    for rows in gen.by_chrom(T).values():
        labs = gen.table_relations(rows)
        if "nested" in labs or "duplicate" in labs:
            return True
    return False


def nontrivial(case):
    A, Q = case["A"], case["Q"]
    if not A["rows"]:
        return False
    if _nested(A):
        return True
    ca, cq = set(gen.by_chrom(A)), set(gen.by_chrom(Q))
    if Q["rows"] and (ca - cq or cq - ca):
        return True
    a = _rows_by_chrom(A)
    for q in Q["rows"]:
        rows = a.get(q[0], [])
        hit = any(e > q[1] and s < q[2] for s, e, _ in rows)
        touch = any(e == q[1] or s == q[2] for s, e, _ in rows)
        if hit and touch:
            return True
    return False


def classify(case):
    A, Q = case["A"], case["Q"]
    labs = ["enum" if case.get("enum") else "gen"]
    if _nested(A):
        labs.append("A-nested-or-dup")
    if not A["rows"]:
        labs.append("A-empty")
    if not Q["rows"]:
        labs.append("Q-empty")
    ca, cq = set(gen.by_chrom(A)), set(gen.by_chrom(Q))
    if len(ca) == 1 and ca == cq:
        labs.append("single-chrom-fastpath")
    if cq - ca:
        labs.append("query-chrom-absent-in-A")
    if ca - cq:
        labs.append("A-chrom-absent-in-Q")
    qs = [tuple(r[:3]) for r in Q["rows"]]
    if len(set(qs)) < len(qs):
        labs.append("queries-repeat")
    ir = case["ir"]
    labs.append("in_range:" + ("s" if ir["start"] is not None else "-") + ("e" if ir["end"] is not None else "-"))
    return labs


def known(case, v):
    return None


def _frame(T, index):
    df = gen.to_frame(T)
    off, step = index
    if len(df):
        df.index = np.arange(len(df)) * step + off
    return df


def _triples(df):
    return [(int(s), int(e), int(r)) for s, e, r in zip(df["start"], df["end"], df["rid"])]


OFFSETS = [0, 0, 0, 0, 3 * 10 ** 8, 2 ** 31 - 20, 2 ** 31 + 5, 2 ** 32 + 11]


def offset_of(case):
    """Coordinate offset of a case (0, chromosome-scale, or around 2^31 / 2^32): a pure function of the case JSON."""
    import json
    import zlib

    if "offset" in case:
        return case["offset"]
    return OFFSETS[zlib.crc32(("off" + json.dumps(case, sort_keys=True, default=str)).encode()) % len(OFFSETS)]


def _shifted(case):
    """The same tables and queries moved up the chromosome by offset_of(case)."""
    import copy

    off = offset_of(case)
    if not off:
        return case
    c = copy.deepcopy(case)
    c["offset"] = 0
    for t in (c["A"], c["Q"]):
        for r in t["rows"]:
            r[1] += off
            r[2] += off
    for k in ("start", "end"):
        if c["ir"].get(k) is not None:
            c["ir"][k] += off
    if c.get("irs"):
        for k in ("starts", "ends"):
            if c["irs"].get(k) is not None:
                c["irs"][k] = [v + off for v in c["irs"][k]]
    return c


def _nan_mode(case):
    import json
    import zlib

    k = zlib.crc32(("nan" + json.dumps(case, sort_keys=True, default=str)).encode()) % 8
    return "sparse" if k in (0, 1) else "all" if k == 2 else None


def check_case(case):
    from skgenome import GenomicArray

    out = []
    case = _shifted(case)
    A, Q = case["A"], case["Q"]

    def bad(clause, detail):
        out.append({"clause": clause, "detail": f"{detail}; A={[r[:4] for r in A['rows'][:8]]} Q={[r[:3] for r in Q['rows'][:8]]} index={case['index']}"})

    # some float values arrive missing (NaN): sparse on a quarter of the cases, the whole column on an eighth - a pure
    # function of the case (seeded change C07i took "only NaN hits" for "no hit")
    nan_mode = _nan_mode(case)
    if nan_mode:
        A = dict(A, rows=[r[:5] + [float("nan")] + r[6:] if nan_mode == "all" or (r[3] * 7 + len(A["rows"])) % 3 == 0 else r
                          for r in A["rows"]])
    fa, fq = _frame(A, case["index"]), _frame(Q, [0, 1])
    # start/end arrive as int64, int32, unsigned or float64 columns
    for df, T, salt in ((fa, A, "A"), (fq, Q, "Q")):
        dt = gen.coord_dtype(case, T, salt)
        if dt != "int64":
            df[["start", "end"]] = df[["start", "end"]].astype(dt)
    ga = GenomicArray(fa)
    gq = GenomicArray(fq)
    a_by = _rows_by_chrom(A)
    rid2row = {r[3]: r for r in A["rows"]}
    before = ga.data.copy()

    # ---- by_ranges / intersection, all modes
    for mode in MODES:
        for keep_empty in (True, False):
            exp = []
            for q in Q["rows"]:
                sel = select(a_by.get(q[0], []), q[1], q[2], mode)
                if sel or keep_empty:
                    exp.append(((q[0], q[1], q[2]), sel))
            got = []
            for bin_row, sub in ga.by_ranges(gq, mode=mode, keep_empty=keep_empty):
                if not isinstance(sub, GenomicArray):
                    bad(f"by_ranges:{mode}", f"yielded {type(sub).__name__} instead of an array")
                    continue
                got.append(((bin_row.chromosome, int(bin_row.start), int(bin_row.end)), _triples(sub.data)))
            if got != exp:
                bad(f"by_ranges:{mode}", f"keep_empty={keep_empty}: got {got[:6]}, expected {exp[:6]}")
        exp = [t for q in Q["rows"] for t in select(a_by.get(q[0], []), q[1], q[2], mode)]
        res = ga.intersection(gq, mode=mode)
        got = _triples(res.data)
        if got != exp:
            bad(f"intersection:{mode}", f"got {got[:10]}, expected {exp[:10]}")
        elif list(res.data.columns) != list(ga.data.columns):
            bad(f"intersection:{mode}", f"columns {list(res.data.columns)}")

    # ---- iter_ranges_of (column values per query)
    for mode in ("outer", "inner"):
        for keep_empty in (True, False):
            exp = []
            for q in Q["rows"]:
                sel = select(a_by.get(q[0], []), q[1], q[2], mode)
                if sel or keep_empty:
                    exp.append([rid for _, _, rid in sel])
            got = [[int(x) for x in ser] for ser in ga.iter_ranges_of(gq, "rid", mode=mode, keep_empty=keep_empty)]
            if got != exp:
                bad(f"iter_ranges_of:{mode}", f"keep_empty={keep_empty}: got {got[:8]}, expected {exp[:8]}")

    # ---- in_range / in_ranges
    ir = case["ir"]
    single = len(a_by) == 1
    for mode in MODES:
        for use_none_chrom in ((False, True) if single and ir["chrom"] in a_by else (False,)):
            chrom = None if use_none_chrom else ir["chrom"]
            rows = a_by.get(ir["chrom"], [])
            exp = select(rows, ir["start"], ir["end"], mode)
            got = _triples(ga.in_range(chrom, ir["start"], ir["end"], mode=mode).data)
            if got != exp:
                bad(f"in_range:{mode}", f"in_range({chrom!r}, {ir['start']}, {ir['end']}) = {got[:10]}, expected {exp[:10]}")
    irs = case.get("irs")
    if irs is not None:
        rows = a_by.get(irs["chrom"], [])
        n = len(irs["starts"] or irs["ends"] or [None])
        for mode in MODES:
            exp = []
            for i in range(n):
                qs = irs["starts"][i] if irs["starts"] is not None else None
                qe = irs["ends"][i] if irs["ends"] is not None else None
                exp += select(rows, qs, qe, mode)
            got = _triples(ga.in_ranges(irs["chrom"], irs["starts"], irs["ends"], mode=mode).data)
            if got != exp:
                bad(f"in_ranges:{mode}", f"in_ranges({irs['chrom']!r}, {irs['starts']}, {irs['ends']}) = {got[:10]}, expected {exp[:10]}")

    # ---- into_ranges
    if True:
        default = case["default"]
        for col in ("gene", "val"):
            summ = case["summary"]
            if summ == "none":
                func = None
            elif summ == "callable":
                func = (lambda ser: "<" + "|".join(sorted(ser)) + ">") if col == "gene" else (lambda ser: float(len(ser)) * 10.0 + float(ser.isna().sum()))
            else:
                func = "CONST" if col == "gene" else 7.25
            dflt = default if col == "gene" else -1.0
            res = ga.into_ranges(gq, col, dflt, func)
            got = list(res)
            exp = []
            ci = COLS.index(col)
            for q in Q["rows"]:
                sel = select(a_by.get(q[0], []), q[1], q[2], "outer")
                vals = [rid2row[rid][ci] for _, _, rid in sel]
                if not vals:
                    exp.append([dflt])
                elif len(vals) == 1:
                    exp.append([vals[0]] + ([func] if summ == "const" else []))
                elif summ == "none":
                    if col == "gene":
                        seen = []
                        for v in vals:
                            if v not in seen:
                                seen.append(v)
                        exp.append([",".join(seen)])
                    else:
                        # "median of floating-point numbers": of the values present (all missing -> missing)
                        real = [v for v in vals if v == v]
                        exp.append([float(np.median(real)) if real else float("nan")])
                elif summ == "callable":
                    exp.append(["<" + "|".join(sorted(vals)) + ">"] if col == "gene" else [len(vals) * 10.0 + sum(1 for v in vals if v != v)])
                else:
                    exp.append([func])
            ok = len(got) == len(exp) and all(any(_same(g, x) for x in xs) for g, xs in zip(got, exp))
            if not ok:
                bad(f"into_ranges:{col}:{summ}", f"got {got[:8]}, expected one of each {exp[:8]}")
    if not ga.data.equals(before):
        bad("input-modified", "table changed by a query")
    return out


def _same(a, b):
    if isinstance(a, str) or isinstance(b, str):
        return a == b
    try:
        if float(a) != float(a) or float(b) != float(b):
            return float(a) != float(a) and float(b) != float(b)
        return abs(float(a) - float(b)) <= 1e-12 * max(1.0, abs(float(b)))
    except (TypeError, ValueError):
        return False
