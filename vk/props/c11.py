"""C11 - a clear copy-number step is found and localised; flat profiles stay unsegmented."""
import numpy as np
from hypothesis import strategies as st

from vk import gen

ID = "C11"
LEVEL = "exploration"
RULE = (
    "Hypothesis draws profiles of 1..3 autosomes; each chromosome is either a single clean step (levels 0 and -1 or 0 and "
    "+0.585, also 0 and +1 for haar; either order; 100..400 bins per side) or a flat control (100..600 bins, optionally with "
    "a centromere-sized gap of >= 1e5 bases in the middle, which makes two arms); Gaussian noise with sd in [0.01, 0.1] from "
    "numpy.random.default_rng(seed drawn by Hypothesis), weights U[0.5, 1], bin sizes 50..2000 (x1, x60 or x250), gaps < 20 000; method haar or "
    "hmm-germline. Oracle: planted truth - per stepped chromosome exactly two segments, |probes of the first - true position| "
    "<= 5, both segment log2 within 0.1 of the true levels; per flat chromosome exactly one segment per arm. Non-trivial = a "
    "case holding at least one step; distinct = distinct (levels, directions, sizes, noise seed, method)."
)
QUICK = {"examples": 1920, "shards": 16, "budget_s": 400, "shrink": False}
THOROUGH = {"examples": 6400, "shards": 16, "budget_s": 3000}
ASSUMPTIONS = [
    "a statistical claim decided per generated noise realisation: 0 failures in 12 000 design-time profiles and in every registered run so far; a failure is reported with its seed and is replayable",
    "bins are contiguous-ish (gaps < 20 000) so that no chromosome arm split is induced except by the planted centromere gap",
    "default do_segmentation options (skip_low off, outlier factor 10, min_weight 0); hmm and hmm-tumor are outside the claim",
    "when a flat chromosome has a centromere gap both arms hold at least 100 bins",
]
STEPS = {"haar": [(0.0, -1.0), (0.0, 0.585), (0.0, 1.0)], "hmm-germline": [(0.0, -1.0), (0.0, 0.585)]}


@st.composite
def strategy(draw):
    method = draw(st.sampled_from(["haar", "hmm-germline"]))
    n = draw(st.sampled_from([1, 1, 2, 3]))
    nums = sorted(draw(st.lists(st.integers(1, 22), min_size=n, max_size=n, unique=True)))
    chroms = []
    style = draw(st.sampled_from(["chr", "chr", ""]))
    for k in nums:
        if draw(st.integers(0, 3)) > 0:
            a, b = draw(st.sampled_from(STEPS[method]))
            if draw(st.booleans()):
                a, b = b, a
            chroms.append({"name": f"{style}{k}", "kind": "step", "left": a, "right": b,
                           "nl": draw(st.one_of(st.integers(100, 130), st.integers(100, 400))),
                           "nr": draw(st.one_of(st.integers(100, 130), st.integers(100, 400)))})
        else:
            gap = draw(st.booleans())
            if gap:
                chroms.append({"name": f"{style}{k}", "kind": "flat", "n": draw(st.integers(200, 600)), "gap": True,
                               "gap_frac": draw(st.sampled_from([0.5, 0.4, 0.6]))})
            else:
                chroms.append({"name": f"{style}{k}", "kind": "flat", "n": draw(st.integers(100, 600)), "gap": False})
    return {"method": method, "chroms": chroms, "sd": draw(st.one_of(st.sampled_from([0.01, 0.1]), st.integers(1, 10).map(lambda k: k / 100.0))),
            "seed": draw(st.integers(0, 2 ** 31)),
            # bin sizes: targeted-panel scale (50..2000 bases) or low-pass WGS scale (x60, x250: up to 5e5 bases) -
            # seeded change C11h measured the centromere gap start-to-start, so a wide bin looked like a gap
            "binscale": draw(st.sampled_from([1, 1, 1, 60, 250]))}


def build(case):
    rng = np.random.default_rng(case["seed"])
    rows = []
    for c in case["chroms"]:
        if c["kind"] == "step":
            levels = [c["left"]] * c["nl"] + [c["right"]] * c["nr"]
        else:
            levels = [0.0] * c["n"]
        n = len(levels)
        pos = int(rng.integers(0, 100000)) + gen.offset_for(case)
        gap_at = None
        if c["kind"] == "flat" and c.get("gap"):
            gap_at = max(100, min(n - 100, int(round(n * c["gap_frac"]))))
        for i, lv in enumerate(levels):
            if gap_at is not None and i == gap_at:
                pos += 150000 + int(rng.integers(0, 3000000))
            size = int(rng.integers(50, 2001)) * case.get("binscale", 1)
            rows.append((c["name"], pos, pos + size, "G%d" % (i // 7), lv + float(rng.normal(0, case["sd"])),
                         float(rng.uniform(0.5, 1.0))))
            pos += size + int(rng.integers(0, 20000)) * int(rng.integers(0, 2))
    return rows


def nontrivial(case):
    return any(c["kind"] == "step" for c in case["chroms"])


def classify(case):
    labs = ["method:" + case["method"]]
    for c in case["chroms"]:
        if c["kind"] == "step":
            labs.append("step:%g->%g" % (c["left"], c["right"]))
        else:
            labs.append("flat+gap" if c.get("gap") else "flat")
    labs.append("chroms:%d" % len(case["chroms"]))
    return sorted(set(labs))


def known(case, v):
    return None


def check_case(case):
    import pandas as pd
    from cnvlib import segmentation
    from cnvlib.cnary import CopyNumArray

    out = []
    rows = build(case)
    from vk import gen

    # the chromosome blocks may arrive in another order than the genome's (chr2 before chr1, `sort -k1,1` order): a third
    # of the multi-chromosome cases reverse or rotate the blocks (seeded change C11j emitted arms in genome order while
    # the per-arm results are attached to rows by position)
    names = [c["name"] for c in case["chroms"]]
    if len(names) > 1:
        k = gen.pick(case, "blocks", 6) if "block_order" not in case else case["block_order"]
        if k in (1, 2):
            names = names[::-1] if k == 1 else names[1:] + names[:1]
            rows = [r for nm in names for r in rows if r[0] == nm]
    df = pd.DataFrame(rows, columns=["chromosome", "start", "end", "gene", "log2", "weight"])

    cnarr = CopyNumArray(gen.relabel(df, gen.spec_for(case)), {"sample_id": "s"})
    segs = segmentation.do_segmentation(cnarr, case["method"])
    ctx = f"method {case['method']}, sd {case['sd']}, seed {case['seed']}"
    for c in case["chroms"]:
        sub = segs.data[segs.data["chromosome"] == c["name"]]
        desc = [(int(r.start), int(r.end), round(float(r.log2), 4), int(r.probes)) for r in sub.itertuples(index=False)]
        if c["kind"] == "flat":
            want = 2 if c.get("gap") else 1
            if len(sub) != want:
                out.append({"clause": "flat:" + case["method"], "detail": f"{c['name']}: flat profile of {c['n']} bins"
                            f"{' with a centromere gap' if c.get('gap') else ''} gave {len(sub)} segments {desc[:6]}, expected {want}; {ctx}"})
            continue
        if len(sub) != 2:
            out.append({"clause": "step:count:" + case["method"], "detail": f"{c['name']}: step {c['left']}->{c['right']} at bin {c['nl']} of "
                        f"{c['nl'] + c['nr']} gave {len(sub)} segments {desc[:6]}; {ctx}"})
            continue
        first, second = sub.iloc[0], sub.iloc[1]
        if abs(int(first["probes"]) - c["nl"]) > 5 or int(first["probes"]) + int(second["probes"]) != c["nl"] + c["nr"]:
            out.append({"clause": "step:position:" + case["method"], "detail": f"{c['name']}: true breakpoint after bin {c['nl']}, segments hold "
                        f"{int(first['probes'])} + {int(second['probes'])} bins; {ctx}"})
        if abs(float(first["log2"]) - c["left"]) > 0.1 or abs(float(second["log2"]) - c["right"]) > 0.1:
            out.append({"clause": "step:level:" + case["method"], "detail": f"{c['name']}: levels {c['left']}, {c['right']} reported as "
                        f"{float(first['log2'])!r}, {float(second['log2'])!r}; {ctx}"})
    return out
