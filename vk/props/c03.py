"""C03 - segments tile each chromosome and account for every surviving bin."""
import numpy as np
from hypothesis import strategies as st

from vk import gen

ID = "C03"
LEVEL = "exploration"
RULE = (
    "Hypothesis draws bin tables (1..6 chromosomes incl. X/Y, 1..400 bins each, with/without a centromere-sized "
    "gap inside or outside the central region, zero-weight bins, null-coverage bins at both edges and in the "
    "interior, a few extreme outliers, duplicate gene names, Antitarget / ignored names, level plans with 0..3 "
    "steps and seeded noise) and a configuration (method none / haar / hmm / hmm-tumor / hmm-germline; skip_low; "
    "skip_outliers 0/2/5/10; min_weight 0/0.3; processes 1/2/3/16). Oracle: survivors are recomputed with the "
    "package's documented filters per arm (none, haar) or per table (HMM); then per chromosome: segments sorted, "
    "positive length, disjoint, inside the input span, every survivor in exactly one segment, probes = survivors "
    "inside, arm ends stretched to the first/last input bin (none, haar), weight = sum and depth = weighted mean "
    "over all input bins spanned, gene = ordered distinct meaningful names, log2 = weighted mean of survivors "
    "(none, HMM); parallel runs equal the serial run. A second wide gap or an interior null-coverage run > 100 kb "
    "makes filtered arms that haar splits again; a third of the cases sit at 2.4e8 / beyond 2^31. Non-trivial = a "
    "filtered bin, or > 1 segment on a chromosome, or an arm split; distinct = distinct case JSON."
)
CLI_SHARE = 4  # one case in CLI_SHARE also goes through the command line (vk/cli.py)
QUICK = {"examples": 960, "shards": 16, "budget_s": 500, "shrink": False}
THOROUGH = {"examples": 4000, "shards": 16, "budget_s": 3000}
ASSUMPTIONS = [
    "bins of a chromosome are sorted and non-overlapping; gene names contain no commas",
    "the filters themselves (drop_low_coverage, rolling outlier rule, weight rule) are taken from the package: the property is about segments vs survivors",
    "arms are recomputed in the harness: largest gap among the central bins (margin max(50, 10%)), split when it is >= 1e5",
    "cbs and flasso need R, which is not installed: not exercised; worker interleavings are whatever the OS gives",
    "every bin table has weight and depth columns (as .cnr files written by fix do)",
]
IGNORED = ("-", ".", "CGH", "Antitarget", "Background")
METHODS = ["none", "haar", "hmm", "hmm-tumor", "hmm-germline"]


@st.composite
def strategy(draw):
    nchrom = draw(st.sampled_from([1, 1, 2, 3, 6]))
    names = draw(st.lists(st.sampled_from(["chr1", "chr2", "chr3", "chr4", "chr5", "chrX", "chrY"]), min_size=nchrom, max_size=nchrom, unique=True))
    names.sort(key=lambda c: ["chr1", "chr2", "chr3", "chr4", "chr5", "chrX", "chrY"].index(c))
    if draw(st.integers(0, 2)) == 0:
        names = [c[3:] for c in names]  # plain naming style: 1..5, X, Y
    chroms = []
    for nm in names:
        n = draw(st.one_of(st.integers(1, 12), st.integers(1, 120), st.integers(103, 400)))
        chroms.append({
            "name": nm, "n": n,
            # "double": a second centromere-sized gap inside an arm; "null_run": an interior run of null-coverage bins
            # spanning > 100 kb - either way the filtered arm itself holds a wide gap, which the haar method re-splits
            # (seeded change C03i rewrote the end-point stretch by row label, and the re-split leaves duplicate labels)
            "gap": draw(st.sampled_from([None, None, "central", "central", "edge", "small", "double"])),
            "null_run": draw(st.sampled_from([0, 0, 0, 0, 30, 60])),
            "gap_frac": draw(st.sampled_from([0.3, 0.5, 0.5, 0.7])),
            "steps": draw(st.lists(st.tuples(st.integers(0, 1000), st.sampled_from([-1.0, 0.585, 1.0, -2.0, 0.3])), max_size=3)),
            "null_left": draw(st.sampled_from([0, 0, 1, 3])), "null_right": draw(st.sampled_from([0, 0, 1, 3])),
            "null_frac": draw(st.sampled_from([0.0, 0.0, 0.05])), "zerow_frac": draw(st.sampled_from([0.0, 0.0, 0.05, 0.3])),
            "outliers": draw(st.integers(0, 3)),
        })
    return {"chroms": chroms, "seed": draw(st.integers(0, 2 ** 31)), "sd": draw(st.sampled_from([0.02, 0.1, 0.3])),
            "method": draw(st.sampled_from(METHODS)), "skip_low": draw(st.booleans()), "skip_outliers": draw(st.sampled_from([0, 2, 5, 10, 10])),
            "min_weight": draw(st.sampled_from([0, 0, 0.3])), "processes": draw(st.sampled_from([1, 1, 1, 2, 3, 16])),
            "all_null_chrom": draw(st.integers(0, 9)) == 0}


def build(case):
    rng = np.random.default_rng(case["seed"])
    rows = []
    for ci, c in enumerate(case["chroms"]):
        n = c["n"]
        pos = int(rng.integers(0, 50000)) + gen.offset_for(case)
        gap_at = None
        gap2_at = None
        run = range(0)
        if c.get("null_run") and n >= 2 * 60 + c["null_run"]:
            run = range(n // 2 - c["null_run"] // 2, n // 2 - c["null_run"] // 2 + c["null_run"])
        if c["gap"] == "double" and n >= 170:
            gap_at, gap2_at = n // 3, (2 * n) // 3
        elif c["gap"] == "central" and n >= 103:
            margin = max(50, int(round(0.1 * n)))
            lo, hi = margin + 1, n - margin - 1
            gap_at = min(max(int(round(n * c["gap_frac"])), lo), hi)
        elif c["gap"] == "edge" and n >= 20:
            gap_at = 5
        elif c["gap"] == "small" and n >= 10:
            gap_at = n // 2
        level = 0.0
        cuts = {max(1, s % n): lv for s, lv in c["steps"]} if n > 1 else {}
        gene_run = 0
        gname = "G%d_0" % ci
        for i in range(n):
            if i == gap_at or i == gap2_at:
                pos += (150000 + int(rng.integers(0, 10 ** 6))) if c["gap"] != "small" else 60000
            if i in cuts:
                level = cuts[i]
            size = int(rng.integers(100, 2001))
            null = i < c["null_left"] or i >= n - c["null_right"] or rng.random() < c["null_frac"]
            if i in run:
                size, null = size + 4000, True
            if case["all_null_chrom"] and len(case["chroms"]) > 1 and ci == (case["seed"] % len(case["chroms"])):
                null = True  # one chromosome (first, middle or last) loses every bin
            v = level + float(rng.normal(0, case["sd"]))
            if gene_run <= 0:
                gene_run = int(rng.integers(1, 8))
                gname = str(rng.choice(["G%d_%d" % (ci, i), "G%d_%d" % (ci, i), "Antitarget", "-", "CGH", "DUP"]))
            gene_run -= 1
            w = 0.0 if rng.random() < c["zerow_frac"] else float(rng.uniform(0.05, 1.0))
            if w and rng.random() < 0.15:
                w = float(rng.choice([0.3, 0.3, 0.29999999999999993, 0.30000000000000004, 1.0]))  # on and next to the min_weight threshold
            rows.append([c["name"], pos, pos + size, gname, -20.0 - float(rng.integers(0, 4)) if null else v,
                         0.0 if null else float(2 ** v * 50), w])
            pos += size + int(rng.integers(0, 3000)) * int(rng.integers(0, 2))
        for _ in range(c["outliers"]):
            k = int(rng.integers(0, n))
            if rows[-n + k][5] > 0:
                rows[-n + k][4] += float(rng.choice([-7.0, 6.0, 9.0]))
    return rows


def arms_of(bins):
    """bins of one chromosome (list of rows) -> list of arms (lists of rows)"""
    n = len(bins)
    margin = max(50, int(round(0.1 * n)))
    if n > 2 * margin + 1:
        best, at = None, None
        for i in range(margin + 1, n - margin):
            g = bins[i][1] - bins[i - 1][2]
            if best is None or g > best:
                best, at = g, i
        if at and best >= 1e5:
            return [bins[:at], bins[at:]]
    return [bins]


def nontrivial(case):
    if any(c["null_left"] or c["null_right"] or c["null_frac"] or c["zerow_frac"] for c in case["chroms"]) and (
            case["skip_low"] or any(c["zerow_frac"] for c in case["chroms"])):
        return True
    if any(c["gap"] == "central" and c["n"] >= 103 for c in case["chroms"]):
        return True
    return case["method"] != "none" and any(c["steps"] and c["n"] > 60 for c in case["chroms"])


def classify(case):
    labs = ["method:" + case["method"], "processes:%d" % case["processes"]]
    if case["skip_low"]:
        labs.append("skip_low")
    if case["skip_outliers"]:
        labs.append("skip_outliers")
    if case["min_weight"]:
        labs.append("min_weight")
    if any(c["null_left"] or c["null_right"] for c in case["chroms"]) and case["skip_low"]:
        labs.append("edge-filtered")
    if any(c["null_frac"] for c in case["chroms"]) and case["skip_low"]:
        labs.append("interior-filtered")
    if any(c["gap"] == "central" and c["n"] >= 103 for c in case["chroms"]):
        labs.append("arm-split")
    if case["all_null_chrom"] and len(case["chroms"]) > 1:
        labs.append("all-null-chromosome")
    return labs


def known(case, v):
    if v["clause"] == "crash:ZeroDivisionError@hmm_get_model" and v.get("nsurv", 99) <= 3:
        return "d25-hmm-zero-spread"
    return None


def _close(a, b, tol=1e-9):
    return abs(a - b) <= tol * max(1.0, abs(a), abs(b))


def check_case(case):
    import pandas as pd
    from cnvlib import segmentation
    from cnvlib.cnary import CopyNumArray

    out = []
    rows = build(case)

    def bad(clause, detail):
        out.append({"clause": f"{clause}:{'hmm' if case['method'].startswith('hmm') else case['method']}",
                    "detail": f"{detail}; method={case['method']} skip_low={case['skip_low']} skip_outliers={case['skip_outliers']} "
                              f"min_weight={case['min_weight']} processes={case['processes']} seed={case['seed']} "
                              f"chroms={[(c['name'], c['n'], c['gap']) for c in case['chroms']]}"})

    cols = ["chromosome", "start", "end", "gene", "log2", "depth", "weight"]
    df = pd.DataFrame([tuple(r) for r in rows], columns=cols)
    from vk import gen

    df = gen.relabel(df, gen.spec_for(case))
    cnarr = CopyNumArray(df.copy(), {"sample_id": "s"})
    is_hmm = case["method"].startswith("hmm")

    def run(procs):
        return segmentation.do_segmentation(cnarr, case["method"], skip_low=case["skip_low"], skip_outliers=case["skip_outliers"],
                                            min_weight=case["min_weight"], processes=procs)


    # ---- survivors, with the package's own filters in the documented order, per arm or per table
    by_chrom = {}
    for r in rows:
        by_chrom.setdefault(r[0], []).append(r)
    arms = {c: arms_of(b) for c, b in by_chrom.items()}

    def survivors_of(unit_rows):
        f = CopyNumArray(pd.DataFrame([tuple(r) for r in unit_rows], columns=cols))
        if case["skip_low"]:
            f = f.drop_low_coverage()
        if case["skip_outliers"] and len(f):
            f = segmentation.drop_outliers(f, 50, case["skip_outliers"])
        if len(f):
            low = (f["weight"] < case["min_weight"]) if case["min_weight"] else (f["weight"] == 0)
            f = f[~low.fillna(True)]
        return {(r.chromosome, int(r.start)) for r in f.data.itertuples(index=False)}

    if is_hmm:
        alive = survivors_of(rows)
    else:
        alive = set()
        for c, al in arms.items():
            for a in al:
                alive |= survivors_of(a)

    try:
        segs = run(1)
    except ZeroDivisionError as exc:
        import traceback
        tb = "".join(traceback.format_exception(type(exc), exc, exc.__traceback__))
        where = "hmm_get_model" if "hmm_get_model" in tb else "other"
        # the HMM's emission spread is estimated from the autosomal survivors (all survivors if none is autosomal)
        auto = [k for k in alive if k[0] not in ("chrX", "chrY", "X", "Y")]
        nfit = len(auto) if auto else len(alive)
        out.append({"clause": f"crash:ZeroDivisionError@{where}", "nsurv": nfit,
                    "detail": f"{len(alive)} surviving bins, {nfit} used to fit the emission spread; {tb[-600:]}"})
        return out
    if not cnarr.data[cols].equals(df):
        bad("input-modified", "do_segmentation changed its input table")
    sdata = segs.data
    need = ["chromosome", "start", "end", "gene", "log2", "probes", "weight", "depth"]
    if len(sdata) and any(k not in sdata.columns for k in need):
        bad("columns", f"segment table lacks {[k for k in need if k not in sdata.columns]}")
        return out
    seg_by = {}
    for r in sdata.itertuples(index=False):
        seg_by.setdefault(r.chromosome, []).append(r)
    order = [c for c in dict.fromkeys(sdata["chromosome"])] if len(sdata) else []
    if order != [c for c in by_chrom if c in seg_by]:
        bad("chromosome-order", f"segments' chromosome order {order} vs input {list(by_chrom)}")
    total_probes = 0
    for c, bins in by_chrom.items():
        ss = seg_by.get(c, [])
        surv = [b for b in bins if (c, b[1]) in alive]
        if surv and not ss:
            bad("chromosome-missing", f"{c} has {len(surv)} surviving bins but no segment")
            continue
        lo, hi = bins[0][1], bins[-1][2]
        for s in ss:
            if not s.start < s.end:
                bad("positive-length", f"{c}:{s.start}-{s.end}")
            if s.start < lo or s.end > hi:
                bad("inside-span", f"{c}:{s.start}-{s.end} outside the input span {lo}-{hi}")
        for a, b in zip(ss, ss[1:]):
            if b.start < a.start:
                bad("sorted", f"{c}: {a.start}-{a.end} then {b.start}-{b.end}")
            elif b.start < a.end:
                bad("overlap", f"{c}: {a.start}-{a.end} overlaps {b.start}-{b.end}")
        for b in surv:
            k = sum(1 for s in ss if s.start <= b[1] and b[2] <= s.end)
            if k != 1:
                bad("survivor-in-one-segment", f"{c}: surviving bin {b[1]}-{b[2]} lies in {k} segments {[(s.start, s.end) for s in ss][:6]}")
                break
        for s in ss:
            inside = [b for b in surv if s.start <= b[1] and b[2] <= s.end]
            total_probes += int(s.probes)
            if int(s.probes) != len(inside):
                bad("probes", f"{c}:{s.start}-{s.end} probes={s.probes}, surviving bins inside: {len(inside)}")
                break
            span = [b for b in bins if b[2] > s.start and b[1] < s.end]
            wsum = sum(b[6] for b in span)
            if not _close(float(s.weight), wsum):
                bad("weight", f"{c}:{s.start}-{s.end} weight={s.weight!r}, input bins spanned sum to {wsum!r} ({len(span)} bins)")
                break
            if wsum > 0:
                dp = sum(b[5] * b[6] for b in span) / wsum
                if not _close(float(s.depth), dp):
                    bad("depth", f"{c}:{s.start}-{s.end} depth={s.depth!r}, weighted mean of spanned bins {dp!r}")
                    break
            names = [g for g in dict.fromkeys(b[3] for b in span) if g not in IGNORED]
            want = ",".join(names) if names else "-"
            if s.gene != want:
                bad("gene", f"{c}:{s.start}-{s.end} gene={s.gene[:80]!r}, expected {want[:80]!r}")
                break
            if (case["method"] == "none" or is_hmm) and inside:
                ws = sum(b[6] for b in inside)
                if ws > 0:
                    m = sum(b[4] * b[6] for b in inside) / ws
                    if not _close(float(s.log2), m):
                        bad("log2", f"{c}:{s.start}-{s.end} log2={s.log2!r}, weighted mean of its {len(inside)} surviving bins {m!r}")
                        break
        if not is_hmm:
            for arm in arms[c]:
                a_lo, a_hi = arm[0][1], arm[-1][2]
                a_surv = [b for b in arm if (c, b[1]) in alive]
                a_segs = [s for s in ss if s.start >= a_lo and s.end <= a_hi]
                if a_surv and not a_segs:
                    bad("arm-missing", f"{c}: arm {a_lo}-{a_hi} has survivors but no segment inside it; segments {[(s.start, s.end) for s in ss][:6]}")
                elif a_segs and (a_segs[0].start != a_lo or a_segs[-1].end != a_hi):
                    bad("arm-ends", f"{c}: arm spans {a_lo}-{a_hi} (first survivor {a_surv[0][1] if a_surv else None}, last survivor end "
                                    f"{a_surv[-1][2] if a_surv else None}), segments span {a_segs[0].start}-{a_segs[-1].end}")
            if len(arms[c]) == 2 and len(ss) >= 1:
                cut_lo, cut_hi = arms[c][0][-1][2], arms[c][1][0][1]
                for s in ss:
                    if s.start < cut_lo and s.end > cut_hi:
                        bad("arm-crossed", f"{c}:{s.start}-{s.end} crosses the centromere gap {cut_lo}-{cut_hi}")
    nsurv = len(alive)
    if total_probes != nsurv and not out:
        bad("probes-sum", f"probes sum to {total_probes}, {nsurv} bins survive")
    for c in seg_by:
        if c not in by_chrom:
            bad("inside-span", f"segment on {c}, which has no input bin")

    if case["processes"] > 1 and not is_hmm:
        par = run(case["processes"])
        a, b = par.data.reset_index(drop=True), sdata.reset_index(drop=True)
        if list(a.columns) != list(b.columns) or len(a) != len(b) or not all(
                (a[k].values == b[k].values).all() if a[k].dtype.kind not in "f" else np.allclose(a[k].values, b[k].values, rtol=0, atol=0, equal_nan=True)
                for k in a.columns):
            bad("parallel-differs", f"processes={case['processes']} gives a different table ({len(a)} vs {len(b)} rows)")
    # ---- command-line tier (a quarter of the cases without min_weight, which the command does not offer):
    # `cnvkit.py segment` on the written table = do_segmentation on the same file
    if gen.pick(case, "cli", 4) == 0 and not out and not case["min_weight"]:
        import shutil
        import tempfile

        from vk import cli

        d = tempfile.mkdtemp(prefix="vk03.")
        try:
            diff = cli.segment_diff(cnarr, d, case["method"], case["skip_low"], case["skip_outliers"], None,
                                    1 if is_hmm else case["processes"])
            if diff:
                bad("cli:segment", diff)
        finally:
            shutil.rmtree(d, ignore_errors=True)
    return out
