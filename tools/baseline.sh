#!/bin/bash
# Run the repository's pinned test suite (guard off) and compare with BASELINE.json's stable_pass list.
# usage: tools/baseline.sh [repo_dir]
repo="${1:-/repo}"
out="$(mktemp /tmp/junit.XXXXXX.xml)"
unset ETAL_CNVKIT_VERIF
(cd "$repo" && PYTHONPATH="$repo" /venv/bin/python -m pytest -ra -q -p no:cacheprovider --timeout=900 --continue-on-collection-errors --junitxml="$out" >/dev/null 2>&1)
/venv/bin/python - "$out" <<'PY'
import json, sys, xml.etree.ElementTree as ET
base = json.load(open('/root/.vp/BASELINE.json'))
want = set(base['stable_pass'])
got = set()
for tc in ET.parse(sys.argv[1]).getroot().iter('testcase'):
    if not any(ch.tag in ('failure','error','skipped') for ch in tc):
        got.add(f"{tc.get('classname')}::{tc.get('name')}")
missing = sorted(want - got)
print(f"baseline: {len(want & got)}/{len(want)} stable tests pass; newly passing: {sorted(got - want)}")
if missing:
    print("MISSING:", *missing, sep="\n  ")
    sys.exit(1)
PY
rc=$?
rm -f "$out" "$repo/test/chrM-Y-trunc.hg19.bed"
exit $rc
