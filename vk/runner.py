"""Runner for the property checks: tiers, seeding, sharding, bucketing of
violations, known findings, evidence and exit codes (DESIGN.md section 2).

A property module (vk/props/cNN.py) provides

    ID            "C06"
    RULE          text: how cases are generated and what makes one non-trivial
    QUICK, THOROUGH   dicts: {"examples": N, "shards": K, "budget_s": S}
    strategy()    -> hypothesis strategy of JSON-able case descriptions
    check_case(case) -> list of {"clause": str, "detail": str}
    nontrivial(case) -> bool
    classify(case)   -> list of labels (optional)
    known(case, violation) -> key of a known finding or None (optional)
    enumerate_cases(tier) -> iterable of cases (optional, bounded-exhaustive part)
    ASSUMPTIONS   list of str (optional)
"""
import argparse
import concurrent.futures
import hashlib
import importlib
import json
import logging
import math
import multiprocessing
import os
import random
import sys
import time
import traceback
import warnings
import zlib

HERE = os.path.dirname(os.path.dirname(os.path.abspath(__file__)))
REPO = os.path.realpath(os.environ.get("VERIF_REPO", "/repo"))


class HarnessError(Exception):
    pass


# ---------------------------------------------------------------- utilities
def _default(o):
    import numpy as np

    if isinstance(o, (np.integer,)):
        return int(o)
    if isinstance(o, (np.floating,)):
        return float(o)
    if isinstance(o, (np.bool_,)):
        return bool(o)
    if isinstance(o, np.ndarray):
        return o.tolist()
    if isinstance(o, (set, frozenset, tuple)):
        return list(o)
    return repr(o)


def canon(case):
    return json.dumps(case, sort_keys=True, separators=(",", ":"), default=_default)


def chash(case):
    return hashlib.sha1(canon(case).encode()).hexdigest()[:16]


def quiet():
    logging.disable(logging.CRITICAL)
    warnings.simplefilter("ignore")
    os.environ.setdefault("PYTHONWARNINGS", "ignore")


def ensure_repo():
    """Refuse to run unless cnvlib/skgenome are imported from VERIF_REPO."""
    import cnvlib
    import skgenome

    for m in (cnvlib, skgenome):
        p = os.path.realpath(m.__file__)
        if not p.startswith(REPO + os.sep):
            raise HarnessError(f"{m.__name__} imported from {p}, not from {REPO}")


def load_mod(pid):
    return importlib.import_module("vk.props." + pid.lower())


def load_case_file(path):
    with open(path) as fh:
        obj = json.load(fh)
    if isinstance(obj, dict) and "case" in obj and ("property" in obj or "note" in obj or "violations" in obj):
        return obj["case"]
    return obj


def load_known(pid):
    path = os.path.join(HERE, "known_findings.json")
    if not os.path.exists(path):
        return []
    with open(path) as fh:
        data = json.load(fh)
    return [f for f in data.get("findings", []) if f.get("property") == pid]


def crash_violation(exc):
    """Bucket an exception escaping check_case by (type, innermost cnvkit frame)."""
    tb = traceback.extract_tb(exc.__traceback__)
    where = None
    for fr in tb:
        fn = os.path.realpath(fr.filename)
        if fn.startswith(REPO + os.sep):
            where = f"{os.path.relpath(fn, REPO)}:{fr.name}"
    if where is None and tb:
        fr = tb[-1]
        where = f"{os.path.basename(fr.filename)}:{fr.name}"
    return {
        "clause": f"crash:{type(exc).__name__}@{where}",
        "detail": "".join(traceback.format_exception(type(exc), exc, exc.__traceback__))[-1500:],
    }


def safe_check(mod, case):
    try:
        return list(mod.check_case(case) or [])
    except HarnessError:
        raise
    except Exception as exc:  # noqa: BLE001 - bucketed, never swallowed
        return [crash_violation(exc)]


def shard_seed(pid, seed, shard):
    return (seed * 1000003 + shard * 7919 + zlib.crc32(pid.encode())) % (2**32)


# ---------------------------------------------------------------- one shard
class Stats:
    def __init__(self):
        self.evaluations = 0
        self.nontrivial = set()
        self.classes = {}
        self.buckets = {}
        self.known_hits = {}
        self.samples = []
        self.budget_hit = False
        self.invalid = 0

    def as_dict(self):
        return {
            "evaluations": self.evaluations,
            "nontrivial": sorted(self.nontrivial),
            "classes": self.classes,
            "buckets": self.buckets,
            "known_hits": self.known_hits,
            "samples": self.samples,
            "budget_hit": self.budget_hit,
            "invalid": self.invalid,
        }


def _visit(mod, stats, open_keys, case, record_sample=True):
    stats.evaluations += 1
    if hasattr(mod, "classify"):
        for lab in mod.classify(case):
            stats.classes[lab] = stats.classes.get(lab, 0) + 1
    share = getattr(mod, "CLI_SHARE", 0)
    if share and isinstance(case, dict):
        from vk import gen

        # cases selected for the command-line tier (vk/cli.py); a module may narrow the selection further
        if gen.pick(case, "cli", share) == 0:
            stats.classes["command-line-tier:selected"] = stats.classes.get("command-line-tier:selected", 0) + 1
    nt = bool(mod.nontrivial(case))
    size = len(canon(case))
    if nt:
        h = chash(case)
        if h not in stats.nontrivial:
            stats.nontrivial.add(h)
            if record_sample:
                # keep the few smallest non-trivial cases as samples
                stats.samples.append((size, case))
                stats.samples.sort(key=lambda t: t[0])
                del stats.samples[3:]
    vs = safe_check(mod, case)
    for v in vs:
        key = mod.known(case, v) if hasattr(mod, "known") else None
        if key is not None and key in open_keys:
            stats.known_hits[key] = stats.known_hits.get(key, 0) + 1
            continue
        b = v["clause"]
        rec = stats.buckets.get(b)
        if rec is None:
            rec = stats.buckets[b] = {"count": 0, "size": math.inf, "case": None, "detail": None}
        rec["count"] += 1
        if size < rec["size"]:
            rec.update(size=size, case=case, detail=str(v.get("detail"))[:2000])
    return vs


def run_shard(job):
    pid, tier, seed, shard, nshards, examples, budget_s, do_shrink = job
    quiet()
    ensure_repo()
    import hypothesis
    from hypothesis import HealthCheck, Phase, given, settings

    mod = load_mod(pid)
    open_keys = {f["key"] for f in load_known(pid) if f.get("status") == "open"}
    stats = Stats()
    t0 = time.time()

    # bounded-exhaustive part, strided over the shards
    if hasattr(mod, "enumerate_cases"):
        for i, case in enumerate(mod.enumerate_cases(tier)):
            if i % nshards != shard:
                continue
            _visit(mod, stats, open_keys, case, record_sample=(stats.evaluations % 97 == 0))

    sseed = shard_seed(pid, seed, shard)
    if examples > 0 and hasattr(mod, "strategy"):
        common = dict(
            database=None,
            deadline=None,
            derandomize=False,
            report_multiple_bugs=False,
            suppress_health_check=[HealthCheck.too_slow, HealthCheck.data_too_large,
                                   HealthCheck.large_base_example],
        )

        @hypothesis.seed(sseed)
        @settings(max_examples=examples, phases=[Phase.generate], **common)
        @given(mod.strategy())
        def survey(case):
            if time.time() - t0 > budget_s:
                stats.budget_hit = True
                return
            _visit(mod, stats, open_keys, case)

        survey()

        # optional Hypothesis stateful (rule-based machine) pass: failing histories come back as replayable cases
        if hasattr(mod, "stateful_cases"):
            cases, nsteps = mod.stateful_cases(tier, sseed, shard, nshards)
            stats.classes["stateful-machine-steps"] = stats.classes.get("stateful-machine-steps", 0) + nsteps
            for case in cases:
                _visit(mod, stats, open_keys, case)

        # minimise each new bucket found by generated cases
        if do_shrink:
            # minimise at most 4 buckets per shard (the most frequent first): a tree with many shallow violations must
            # still end promptly; the unminimised smallest recorded case of the other buckets is reported as it is
            ranked = sorted(stats.buckets.items(), key=lambda kv: -kv[1]["count"])[:4]
            for b, rec in ranked:
                t1 = time.time()
                shrink_budget = 30 if tier == "quick" else 150

                def pred(case, b=b, t1=t1, shrink_budget=shrink_budget):
                    if time.time() - t1 > shrink_budget:
                        return False
                    for v in safe_check(mod, case):
                        if v["clause"] != b:
                            continue
                        key = mod.known(case, v) if hasattr(mod, "known") else None
                        if key is not None and key in open_keys:
                            continue
                        return True
                    return False

                try:
                    small = hypothesis.find(
                        mod.strategy(), pred,
                        settings=settings(max_examples=max(examples, 50) * 2, **common),
                        random=random.Random(sseed),
                    )
                    size = len(canon(small))
                    if size < rec["size"]:
                        vs = [v for v in safe_check(mod, small) if v["clause"] == b]
                        rec.update(size=size, case=small,
                                   detail=str(vs[0]["detail"])[:2000] if vs else rec["detail"])
                except Exception:  # noqa: BLE001 - NoSuchExample / budget: keep the recorded case
                    pass

    out = stats.as_dict()
    out["samples"] = [c for _, c in stats.samples]
    out["wall_s"] = time.time() - t0
    for rec in out["buckets"].values():
        if rec["size"] == math.inf:
            rec["size"] = -1
    return out


# ---------------------------------------------------------------- parent
def replay_files(mod, pid, paths, open_keys, label):
    """Replay stored cases without hypothesis; returns list of (path, violations)."""
    bad = []
    n = 0
    for path in paths:
        case = load_case_file(path)
        n += 1
        vs = []
        for v in safe_check(mod, case):
            key = mod.known(case, v) if hasattr(mod, "known") else None
            if key is not None and key in open_keys:
                continue
            vs.append(v)
        if vs:
            bad.append((path, vs))
    return n, bad


def _outdir(name):
    """evidence/ and replays/ under /verif; the self-test tools (mutants, seeded changes) redirect both with
    VERIF_EVIDENCE_DIR so that they never overwrite the evidence of the registered checks."""
    alt = os.environ.get("VERIF_EVIDENCE_DIR")
    return os.path.join(alt, name) if alt else os.path.join(HERE, name)


def write_replay(pid, bucket, case, detail):
    d = _outdir("replays")
    os.makedirs(d, exist_ok=True)
    name = f"{pid}-{hashlib.sha1(bucket.encode()).hexdigest()[:10]}.json"
    path = os.path.join(d, name)
    with open(path, "w") as fh:
        json.dump({"property": pid, "clause": bucket, "violations": [{"clause": bucket, "detail": detail}],
                   "case": case}, fh, indent=1, default=_default, sort_keys=True)
    return os.path.relpath(path, HERE) if not os.environ.get("VERIF_EVIDENCE_DIR") else path


def write_evidence(pid, tier, seed, mod, merged, wall, nviol, extra):
    os.makedirs(_outdir("evidence"), exist_ok=True)
    cov = {
        "evaluations": merged["evaluations"],
        "distinct_nontrivial": len(merged["nontrivial"]),
        "rule": mod.RULE,
        "samples": merged["samples"][:4],
        "classes": dict(sorted(merged["classes"].items())),
        "exhaustive": bool(getattr(mod, "EXHAUSTIVE", {}).get(tier, False)) if hasattr(mod, "EXHAUSTIVE") else False,
        "excluded_as_known_finding": merged["known_hits"],
        "violation_buckets": {b: r["count"] for b, r in merged["buckets"].items()},
        "inconclusive_budget_hit": merged["budget_hit"],
    }
    cov.update(extra)
    ev = {
        "property_id": pid,
        "tier": tier,
        "seed": seed,
        "level": getattr(mod, "LEVEL", "exploration"),
        "coverage": cov,
        "assumptions": list(getattr(mod, "ASSUMPTIONS", [])),
        "wall_s": round(wall, 2),
        "violations": nviol,
    }
    path = os.path.join(_outdir("evidence"), f"{pid}.json")
    with open(path, "w") as fh:
        json.dump(ev, fh, indent=1, default=_default, sort_keys=True)
        fh.write("\n")


def main(argv=None):
    ap = argparse.ArgumentParser()
    ap.add_argument("pid")
    ap.add_argument("--tier", default=os.environ.get("VERIF_TIER", "quick"), choices=["quick", "thorough"])
    ap.add_argument("--replay")
    ap.add_argument("--examples", type=int)
    ap.add_argument("--shards", type=int)
    ap.add_argument("--budget", type=float)
    ap.add_argument("--no-shrink", action="store_true")
    ap.add_argument("--no-fuzz", action="store_true")
    args = ap.parse_args(argv)
    pid = args.pid.upper()
    try:
        seed = int(os.environ.get("VERIF_SEED", "1") or "1")
    except ValueError:
        seed = zlib.crc32(os.environ["VERIF_SEED"].encode())
    quiet()
    t0 = time.time()
    try:
        ensure_repo()
        mod = load_mod(pid)
        findings = load_known(pid)
        open_f = [f for f in findings if f.get("status") == "open"]
        open_keys = {f["key"] for f in open_f}

        if args.replay:
            case = load_case_file(args.replay)
            vs = safe_check(mod, case)
            rc = 0
            for v in vs:
                key = mod.known(case, v) if hasattr(mod, "known") else None
                if key is not None and key in open_keys:
                    what = next(f["what"] for f in open_f if f["key"] == key)
                    print(f"KNOWN-FINDING: property={pid} {what}")
                    continue
                print(f"  violated clause {v['clause']}: {str(v['detail'])[:600]}")
                rc = 1
            if rc:
                print(f"VIOLATION property={pid} replay={args.replay}")
            else:
                print(f"replay {args.replay}: property {pid} held")
            return rc

        conf = dict(mod.QUICK if args.tier == "quick" else mod.THOROUGH)
        if args.examples is not None:
            conf["examples"] = args.examples
        if args.shards is not None:
            conf["shards"] = args.shards
        if args.budget is not None:
            conf["budget_s"] = args.budget
        nshards = max(1, min(int(conf.get("shards", 1)), os.cpu_count() or 1))
        per = int(math.ceil(conf["examples"] / nshards)) if conf["examples"] else 0
        do_shrink = not args.no_shrink and conf.get("shrink", True)

        violations = []  # (bucket, replay path)

        # 1. regressions (incl. reproducers of fixed findings): must pass
        rdir = os.path.join(HERE, "regressions", pid)
        rfiles = sorted(
            os.path.join(rdir, f) for f in (os.listdir(rdir) if os.path.isdir(rdir) else [])
            if f.endswith(".json") and not f.startswith("known-")
        )
        nreg, bad = replay_files(mod, pid, rfiles, open_keys, "regression")
        for path, vs in bad:
            for v in vs:
                print(f"  regression {os.path.relpath(path, HERE)} violates {v['clause']}: {str(v['detail'])[:400]}")
            violations.append(("regression:" + vs[0]["clause"], os.path.relpath(path, HERE)))

        # 2. open known findings: replay the pinned reproducer, report if still failing
        for f in open_f:
            path = os.path.join(HERE, f["reproducer"])
            case = load_case_file(path)
            vs = safe_check(mod, case)
            still = False
            for v in vs:
                key = mod.known(case, v) if hasattr(mod, "known") else None
                if key == f["key"]:
                    still = True
                else:
                    print(f"  known-finding reproducer shows a different violation {v['clause']}: {str(v['detail'])[:400]}")
                    violations.append(("known-reproducer:" + v["clause"], f["reproducer"]))
            if still:
                print(f"KNOWN-FINDING: property={pid} {f['what']}")

        # 3. enumerated + generated search, sharded
        jobs = [(pid, args.tier, seed, s, nshards, per, float(conf.get("budget_s", 600)), do_shrink)
                for s in range(nshards)]
        if nshards == 1:
            results = [run_shard(jobs[0])]
        else:
            ctx = multiprocessing.get_context("fork")
            with concurrent.futures.ProcessPoolExecutor(max_workers=nshards, mp_context=ctx) as ex:
                results = list(ex.map(run_shard, jobs))

        merged = {"evaluations": nreg, "nontrivial": set(), "classes": {}, "buckets": {}, "known_hits": {},
                  "samples": [], "budget_hit": False}
        for r in results:
            merged["evaluations"] += r["evaluations"]
            merged["nontrivial"].update(r["nontrivial"])
            for k, v in r["classes"].items():
                merged["classes"][k] = merged["classes"].get(k, 0) + v
            for k, v in r["known_hits"].items():
                merged["known_hits"][k] = merged["known_hits"].get(k, 0) + v
            merged["budget_hit"] = merged["budget_hit"] or r["budget_hit"]
            for b, rec in r["buckets"].items():
                cur = merged["buckets"].get(b)
                if cur is None:
                    merged["buckets"][b] = dict(rec)
                else:
                    cur["count"] += rec["count"]
                    if 0 <= rec["size"] < cur["size"] or cur["size"] < 0:
                        cur.update(size=rec["size"], case=rec["case"], detail=rec["detail"])
        samples = sorted((s for r in results for s in r["samples"]), key=lambda c: len(canon(c)))
        merged["samples"] = samples[:4]

        # 4. thorough tier: coverage-guided campaign (atheris/libFuzzer) through the same strategy and oracle
        fuzz_info = None
        if args.tier == "thorough" and hasattr(mod, "FUZZ") and not args.no_fuzz:
            import shutil
            import tempfile
            from vk import fuzz

            tmp = tempfile.mkdtemp(prefix="vkfuzz.")
            try:
                fuzz_info = fuzz.run_campaign(pid, int(mod.FUZZ.get("seconds", 60)), int(mod.FUZZ.get("jobs", 8)), seed, tmp, _outdir("replays"))
            finally:
                shutil.rmtree(tmp, ignore_errors=True)
            if not fuzz_info["available"]:
                print("note: atheris is not installed under .deps (run ./setup.sh); coverage-guided campaign skipped", file=sys.stderr)
            for path in fuzz_info["violations"]:
                case = load_case_file(path)
                vs = [v for v in safe_check(mod, case)
                      if not ((mod.known(case, v) if hasattr(mod, "known") else None) in open_keys)]
                if vs:  # confirmed outside the fuzzer process
                    rel = os.path.relpath(path, HERE) if not os.environ.get("VERIF_EVIDENCE_DIR") else path
                    print(f"  violated clause {vs[0]['clause']} (found by the coverage-guided campaign): {str(vs[0]['detail'])[:600]}")
                    violations.append(("fuzz:" + vs[0]["clause"], rel))
            fuzz_info["violations"] = len(fuzz_info["violations"])

        for b, rec in sorted(merged["buckets"].items()):
            path = write_replay(pid, b, rec["case"], rec["detail"])
            print(f"  violated clause {b} ({rec['count']} cases): {str(rec['detail'])[:600]}")
            violations.append((b, path))

        wall = time.time() - t0
        extra = {"regressions_replayed": nreg, "shards": nshards, "examples_per_shard": per}
        if fuzz_info is not None:
            extra["coverage_guided_campaign"] = fuzz_info
        floors = getattr(mod, "CLASS_FLOORS", {})
        gen_total = max(1, merged["evaluations"] - nreg)
        low = {k: merged["classes"].get(k, 0) / gen_total for k, fl in floors.items()
               if merged["classes"].get(k, 0) / gen_total < fl}
        if low:
            extra["class_floor_warnings"] = low
            print(f"warning: generator classes below their floor: {low}", file=sys.stderr)
        write_evidence(pid, args.tier, seed, mod, merged, wall, len(violations), extra)
        if len(merged["nontrivial"]) < 2:
            raise HarnessError("fewer than 2 distinct non-trivial cases were generated: fix the generator")
        for b, path in violations:
            print(f"VIOLATION property={pid} replay={path}")
        state = "VIOLATED" if violations else ("held (inconclusive: budget hit)" if merged["budget_hit"] else "held")
        print(f"{pid} {args.tier} seed={seed}: {state}; evaluations={merged['evaluations']} "
              f"distinct_nontrivial={len(merged['nontrivial'])} known_excluded={sum(merged['known_hits'].values())} "
              f"wall={wall:.1f}s")
        return 1 if violations else 0
    except HarnessError as exc:
        print(f"HARNESS-ERROR {pid}: {exc}", file=sys.stderr)
        return 2
    except Exception:  # noqa: BLE001
        traceback.print_exc()
        print(f"HARNESS-ERROR {pid}: unexpected exception in the runner", file=sys.stderr)
        return 2


if __name__ == "__main__":
    sys.exit(main())
