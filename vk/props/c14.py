"""C14 - segment filters merge only adjacent like segments and conserve what they merge."""
import math

import numpy as np
from hypothesis import strategies as st

ID = "C14"
LEVEL = "exploration"
RULE = (
    "Hypothesis draws segment tables (1..6 chromosomes, 1..30 segments each, gaps or abutting, log2 from a small palette "
    "+ jitter, probes, weights incl. 0, cn 0..8 in sticky runs, optional cn1/cn2 incl. NaN, baf, depth, ci_lo/ci_hi around "
    "/ away from / exactly 0, sem) and either one filter applied directly (segfilters.cn/ci/sem/ampdel) or an ordered "
    "list of distinct filters with at most one of ci/sem passed to do_call with method threshold/clonal/none. Oracle: "
    "an independent run-squashing model (maximal runs of equal (chromosome, level); first start, last end, summed probes "
    "and weight, weight-averaged log2) plus direct conservation clauses. Non-trivial = some run of >= 2 segments is merged "
    "and some adjacent pair is not; distinct = distinct case JSON."
)
CLI_SHARE = 4  # one case in CLI_SHARE also goes through the command line (vk/cli.py)
QUICK = {"examples": 3200, "shards": 16, "budget_s": 300}
THOROUGH = {"examples": 24000, "shards": 16, "budget_s": 2400}
ASSUMPTIONS = [
    "allele-specific columns (cn1/cn2) are only generated for the cn filter, whose level the statement defines as the triple (cn, cn1, cn2); "
    "tables given to ci/sem/ampdel carry no cn1/cn2 (the code additionally splits those filters' runs by allele-specific cn, which the statement neither requires nor forbids)",
    "a run whose total weight is 0 only requires the merged log2 to lie within the run's range",
    "in do_call lists the copy numbers after ci/sem squashing are taken from cnvkit's own call on the model-squashed table (calling itself is C01/C02)",
    "the merged cn of a mixed-cn run (ampdel, ci, sem) is taken from cnvlib.descriptives.weighted_median (checked by C19)",
]
FILTERS = ["cn", "ci", "sem", "ampdel"]
CHROMS = ["chr1", "chr2", "chr3", "chr10", "chrX", "chrY"]


@st.composite
def seg_table(draw, allelic):
    nchrom = draw(st.integers(1, 6))
    style = draw(st.sampled_from(["chr", "chr", ""]))  # chr1..chrY or 1..Y
    chroms = [style + c[3:] for c in CHROMS[:nchrom]]
    rows = []
    palette = [-1.0, -0.4, 0.0, 0.0, 0.3, 0.58, 1.3]
    # copy numbers are "arbitrary": occasionally a whole table sits at a huge base, where neighbouring integers differ only
    # in their last few bits (not with allele-specific columns, whose split would no longer be meaningful)
    cn_base = 0 if allelic else draw(st.sampled_from([0, 0, 0, 0, 100000, 10 ** 6]))
    # in half of the tables the log2 ratios follow the (sticky) copy-number runs, so that the calling methods reproduce
    # those runs - long amplified / deleted stretches with neighbouring levels (5, 6, 6 ...) - instead of levels that
    # change with every segment
    coupled = draw(st.booleans())
    for c in chroms:
        n = draw(st.one_of(st.integers(1, 6), st.integers(1, 30)))
        pos = draw(st.integers(0, 5000))
        cn = draw(st.integers(0, 8))
        cn1 = None
        ci_kind = draw(st.sampled_from(["pos", "neg", "zero"]))
        for _ in range(n):
            pos += draw(st.sampled_from([0, 0, 1, 1000]))
            length = draw(st.integers(1, 5000))
            if draw(st.integers(0, 2)) == 0:
                cn = draw(st.integers(0, 8))
            if draw(st.integers(0, 2)) == 0:
                ci_kind = draw(st.sampled_from(["pos", "neg", "zero", "edge0"]))
            log2 = draw(st.sampled_from(palette)) + draw(st.integers(-8, 8)) / 64.0
            if coupled:
                # (+0.37/64: never exactly on an integer copy number for any ploidy, where the last bit of a weighted mean
                # would decide the call)
                log2 = math.log2(max(cn, 0.25) / 2.0) + (draw(st.integers(-4, 4)) + 0.37) / 64.0
            w = draw(st.sampled_from([0.0, 0.25, 1.0, 3.5, 17.0]))
            row = {"chromosome": c, "start": pos, "end": pos + length, "gene": draw(st.sampled_from(["A", "B", "-", "A,B"])),
                   "log2": log2, "probes": draw(st.integers(1, 200)), "weight": w, "cn": cn + cn_base,
                   "depth": draw(st.integers(0, 400)) / 4.0}
            half = draw(st.sampled_from([0.0, 0.05, 0.5]))
            if ci_kind == "pos":
                lo, hi = abs(log2) + 0.01, abs(log2) + 0.01 + 2 * half
            elif ci_kind == "neg":
                lo, hi = -abs(log2) - 0.01 - 2 * half, -abs(log2) - 0.01
            elif ci_kind == "zero":
                lo, hi = -half - 0.01, half + 0.01
            else:
                lo, hi = draw(st.sampled_from([(0.0, 0.2), (-0.2, 0.0), (0.0, 0.0)]))
            row["ci_lo"], row["ci_hi"] = lo, hi
            row["sem"] = draw(st.sampled_from([0.0, 0.01, 0.1, 1.0]))
            if allelic:
                if draw(st.integers(0, 3)) == 0 or cn1 is None or cn1 > cn:
                    cn1 = draw(st.one_of(st.none(), st.integers(0, max(cn, 0))))
                    if cn1 is not None:
                        cn1 = max(cn1, cn - cn1)
                row["cn1"] = cn1
                row["cn2"] = None if cn1 is None else cn - cn1
                row["baf"] = None if cn1 is None else draw(st.integers(0, 64)) / 64.0
            rows.append(row)
            pos += length
    return rows


@st.composite
def strategy(draw):
    kind = draw(st.sampled_from(["direct", "call", "call"]))
    if kind == "direct":
        f = draw(st.sampled_from(FILTERS))
        allelic = f == "cn" and draw(st.booleans())
        return {"kind": kind, "filter": f, "rows": draw(seg_table(allelic))}
    flist = draw(st.lists(st.sampled_from(FILTERS), min_size=1, max_size=3, unique=True))
    if "ci" in flist and "sem" in flist:
        flist.remove(draw(st.sampled_from(["ci", "sem"])))
    method = draw(st.sampled_from(["threshold", "clonal", "none"]))
    return {"kind": kind, "filters": flist, "method": method, "rows": draw(seg_table(False)),
            "ploidy": draw(st.sampled_from([2, 2, 3, 4])), "purity": draw(st.sampled_from([None, None, 0.7])),
            "male_ref": draw(st.booleans()), "female": draw(st.booleans())}


# ------------------------------------------------------------------ model
def _eq(a, b):
    if a is None and b is None:
        return True
    if a is None or b is None:
        return False
    return a == b


def level_of(f, row):
    if f == "cn":
        return (row["cn"], row.get("cn1", "na"), row.get("cn2", "na"))
    if f == "ci":
        return 1 if row["ci_lo"] > 0 else (-1 if row["ci_hi"] < 0 else 0)
    if f == "sem":
        m = row["sem"] * 1.96
        return 1 if row["log2"] - m > 0 else (-1 if row["log2"] + m < 0 else 0)
    if f == "ampdel":
        return -1 if row["cn"] == 0 else (1 if row["cn"] >= 5 else 0)
    raise ValueError(f)


def runs_of(f, rows):
    out = []
    for r in rows:
        key = (r["chromosome"], level_of(f, r))
        if out and out[-1][0] == key:
            out[-1][1].append(r)
        else:
            out.append((key, [r]))
    return out


def squash_model(f, rows):
    from cnvlib.descriptives import weighted_median

    res = []
    for (chrom, lev), grp in runs_of(f, rows):
        W = sum(r["weight"] for r in grp)
        o = {"chromosome": chrom, "start": grp[0]["start"], "end": grp[-1]["end"],
             "probes": sum(r["probes"] for r in grp), "weight": W, "_n": len(grp),
             "_lo": min(r["log2"] for r in grp), "_hi": max(r["log2"] for r in grp)}
        if W > 0:
            o["log2"] = sum(r["log2"] * r["weight"] for r in grp) / W
        else:
            o["log2"] = sum(r["log2"] for r in grp) / len(grp)
        genes = []
        for r in grp:
            if r["gene"] not in genes:
                genes.append(r["gene"])
        o["gene"] = ",".join(genes)
        if "cn" in grp[0]:
            cns = [r["cn"] for r in grp]
            if len(set(cns)) == 1:
                o["cn"] = cns[0]
            elif W > 0:
                o["cn"] = float(weighted_median(np.array(cns, dtype=float), np.array([r["weight"] for r in grp])))
            else:
                o["cn"] = float(np.median(cns))
            if "cn1" in grp[0]:
                o["cn1"] = grp[0]["cn1"]
                o["cn2"] = grp[0]["cn2"]
        res.append(o)
    if f == "ampdel":
        res = [o for o in res if o["cn"] == 0 or o["cn"] >= 5]
    return res


def _has_merge_and_split(f, rows):
    rs = runs_of(f, rows)
    merged = any(len(g) >= 2 for _, g in rs)
    split = any(a[0][0] == b[0][0] for a, b in zip(rs[:-1], rs[1:]))
    return merged and split


def nontrivial(case):
    fs = [case["filter"]] if case["kind"] == "direct" else [f for f in case["filters"] if f in ("ci", "sem")] or case["filters"][:1]
    if case["kind"] == "call" and case["method"] != "none" and fs[0] in ("cn", "ampdel"):
        return len(case["rows"]) >= 3
    return _has_merge_and_split(fs[0], case["rows"])


def classify(case):
    if case["kind"] == "direct":
        labs = ["direct:" + case["filter"]]
        if "cn1" in case["rows"][0]:
            labs.append("allelic")
            if any(r["cn1"] is None for r in case["rows"]):
                labs.append("allelic-with-NaN")
    else:
        labs = ["call:" + case["method"], "filters:" + "+".join(case["filters"])]
    if any(r["weight"] == 0 for r in case["rows"]):
        labs.append("zero-weight")
    return labs


def known(case, v):
    return None


COLS = ["chromosome", "start", "end", "gene", "log2", "probes", "weight", "cn", "depth", "ci_lo", "ci_hi", "sem", "cn1", "cn2", "baf"]


_CUR = {"spec": None}  # row-label variant of the case being checked (set by check_case)


def _arr(rows, drop=()):
    import pandas as pd
    from cnvlib.cnary import CopyNumArray

    cols = [c for c in COLS if c in rows[0] and c not in drop]
    df = pd.DataFrame({c: [(float("nan") if r[c] is None else r[c]) for r in rows] for c in cols})
    from vk import gen

    gen.relabel(df, _CUR["spec"])
    return CopyNumArray(df, {"sample_id": "s"})


def _compare(res, exp, bad, clause, ctx):
    got = [(r.chromosome, int(r.start), int(r.end), int(r.probes), float(r.weight), float(r.log2)) for r in res.data.itertuples(index=False)]
    if len(got) != len(exp):
        bad(clause, f"{ctx}: {len(got)} output segments, model gives {len(exp)}: got {[g[:3] for g in got[:8]]} expected {[(o['chromosome'], o['start'], o['end']) for o in exp[:8]]}")
        return False
    for g, o in zip(got, exp):
        if g[:4] != (o["chromosome"], o["start"], o["end"], o["probes"]) or abs(g[4] - o["weight"]) > 1e-9 * max(1, o["weight"]):
            bad(clause, f"{ctx}: output {g[:5]}, model {(o['chromosome'], o['start'], o['end'], o['probes'], o['weight'])}")
            return False
        if o["weight"] > 0 or o["_n"] == 1:
            if abs(g[5] - o["log2"]) > 1e-9:
                bad(clause + ":log2", f"{ctx}: segment {g[:3]} log2 {g[5]!r}, weight-averaged log2 of its run {o['log2']!r}")
                return False
        elif not (o["_lo"] - 1e-9 <= g[5] <= o["_hi"] + 1e-9):
            bad(clause + ":log2", f"{ctx}: zero-weight run {g[:3]} log2 {g[5]!r} outside the run's range")
            return False
    return True


def check_case(case):
    from vk import gen as _gen

    _CUR["spec"] = _gen.spec_for(case)
    from cnvlib import call, segfilters

    out = []
    rows = case["rows"]

    def bad(clause, detail):
        out.append({"clause": clause, "detail": f"{detail}; rows={[(r['chromosome'], r['start'], r['end'], r['cn'], r.get('cn1', '-'), r['weight']) for r in rows[:10]]}"})

    if case["kind"] == "direct":
        f = case["filter"]
        segarr = _arr(rows)
        before = segarr.data.copy()
        res = getattr(segfilters, f)(segarr)
        exp = squash_model(f, rows)
        ok = _compare(res, exp, bad, f, f"segfilters.{f}")
        # conservation, stated directly
        if f != "ampdel":
            if int(res["probes"].sum()) != sum(r["probes"] for r in rows):
                bad(f + ":conserve", f"probes {int(res['probes'].sum())} != {sum(r['probes'] for r in rows)}")
            if abs(float(res["weight"].sum()) - sum(r["weight"] for r in rows)) > 1e-9 * max(1.0, sum(r["weight"] for r in rows)):
                bad(f + ":conserve", "total weight changed")
            for c in {r["chromosome"] for r in rows}:
                sub = res.data[res.data.chromosome == c]
                lo = min(r["start"] for r in rows if r["chromosome"] == c)
                hi = max(r["end"] for r in rows if r["chromosome"] == c)
                if not len(sub) or int(sub.start.min()) != lo or int(sub.end.max()) != hi:
                    bad(f + ":conserve", f"span of {c} changed")
        if ok and f == "cn" and "cn1" in rows[0]:
            # neighbouring outputs differ in level
            got = [(r.chromosome, r.cn, r.cn1, r.cn2) for r in res.data.itertuples(index=False)]
            for a, b in zip(got[:-1], got[1:]):
                if a[0] == b[0] and all((x == y) or (x != x and y != y) for x, y in zip(a[1:], b[1:])):
                    bad("cn:neighbours-differ", f"adjacent outputs share level {a}")
                    break
        if not segarr.data.equals(before):
            bad("input-modified", "filter changed its input")
        return out

    # ---- through do_call
    filters = list(case["filters"])
    method = case["method"]
    segarr = _arr(rows, drop=(() if method == "none" else ("cn",)))
    before = segarr.data.copy()
    kw = dict(ploidy=case["ploidy"], purity=case["purity"], is_haploid_x_reference=case["male_ref"],
              is_sample_female=case["female"])
    try:
        res = call.do_call(segarr, None, method, filters=list(filters), **kw)
    except ValueError as exc:
        # a cn-based filter without a cn column (method none on a table that lost it) is refused, as documented
        if "requires column" in str(exc):
            return out
        raise
    cur = [dict(r) for r in rows]
    if method != "none":
        for r in cur:
            r.pop("cn", None)
    first = [f for f in ("ci", "sem") if f in filters]
    rest = [f for f in filters if f not in ("ci", "sem")]
    for f in first:
        cur = squash_model(f, cur)
    if method != "none" or (case["purity"] and case["purity"] < 1.0):
        # copy numbers (and purity-rescaled log2) of the (model-)squashed table from cnvkit's own call without filters
        tmp = _arr([{**{k: v for k, v in r.items() if not k.startswith("_")}} for r in cur])
        called = call.do_call(tmp, None, method, filters=None, **kw)
        for i, r in enumerate(cur):
            if method != "none":
                r["cn"] = int(called["cn"].values[i])
            r["log2"] = float(called["log2"].values[i])
            r["_lo"], r["_hi"] = -math.inf, math.inf
    for f in rest:
        if "cn" not in cur[0]:
            return out
        cur = squash_model(f, cur)
        if not cur:
            break
    for o in cur:
        o.setdefault("_n", 1)
        o.setdefault("_lo", o["log2"])
        o.setdefault("_hi", o["log2"])
    _compare(res, cur, bad, "call:" + "+".join(filters), f"do_call(method={method}, filters={filters})")
    if not segarr.data.equals(before):
        bad("input-modified", "do_call changed its input array")
    # ---- command-line tier (a quarter of the cases): `cnvkit.py call --filter ...` = do_call on the same written table
    from vk import gen

    if gen.pick(case, "cli", 4) == 0 and not out:
        import shutil
        import tempfile

        from vk import cli

        cli.use_case(case)

        d = tempfile.mkdtemp(prefix="vk14.")
        try:
            diff = cli.call_diff(segarr, d, method, case["ploidy"], case["purity"], case["male_ref"], case["female"], None, filters, None)
            if diff:
                bad("cli:call", diff)
        finally:
            shutil.rmtree(d, ignore_errors=True)
    return out
