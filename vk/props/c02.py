"""C02 - threshold calls are a monotone step function of log2; cn1 + cn2 = cn."""
import math

import numpy as np
from hypothesis import strategies as st

ID = "C02"
LEVEL = "exploration"
RULE = (
    "Hypothesis draws a strictly increasing threshold vector of length 1..12 in [-4, 4] (or the default vector), ploidy "
    "1..6, reference sex, naming style; probe log2 values are constructed per chromosome class (two autosomes, X, Y): "
    "every threshold, the doubles immediately either side of it, log2(m/r) for m=1..13 and its two neighbours, 10 "
    "random reals in [-8, 8], NaN; BAF values cycle over a drawn palette from {NaN} U [0,1] incl. 0, 0.5, 1. Oracle: "
    "the definition in the statement restated row by row (count of thresholds strictly below; haploid rescale with "
    "truncation; ceil above the last threshold; NaN -> reference copies) plus the two corollaries and the allelic-split "
    "clauses. Non-trivial = configuration whose probes include a value within one ulp of a threshold or integer crossing "
    "(all do by construction); distinct = distinct case JSON."
)
CLI_SHARE = 4  # one case in CLI_SHARE also goes through the command line (vk/cli.py)
QUICK = {"examples": 6400, "shards": 16, "budget_s": 300}
THOROUGH = {"examples": 16000, "shards": 16, "budget_s": 2400}
ASSUMPTIONS = [
    "the monotonic corollary is asserted for ploidy >= 2 only: at ploidy 1 the defining sentence itself gives 3 at log2 0.7 and ceil(2^0.71)=2 just above",
    "reference copies: ploidy//2 on Y and on X under a male reference, else ploidy (statement of C01/C02)",
    "BAF is supplied as a pre-existing baf column (the VariantArray route is covered by C18)",
]
DEFAULT = [-1.1, -0.25, 0.2, 0.7]
CLASSES = ["1", "2", "X", "Y"]


@st.composite
def strategy(draw):
    if draw(st.integers(0, 2)) == 0:
        thr = "default"
    else:
        k = draw(st.integers(1, 12))
        vals = sorted(set(draw(st.lists(st.one_of(st.integers(-32, 32).map(lambda i: i / 8.0), st.floats(-4, 4)),
                                        min_size=k, max_size=k))))
        thr = vals
    bafs = draw(st.lists(st.one_of(st.none(), st.sampled_from([0.0, 0.5, 1.0]), st.floats(0, 1)), min_size=1, max_size=12))
    return {"thresholds": thr, "ploidy": draw(st.integers(1, 6)), "male_ref": draw(st.booleans()),
            "chr": draw(st.booleans()), "extra": draw(st.lists(st.floats(-8, 8), min_size=10, max_size=10)),
            "bafs": bafs, "with_baf": draw(st.booleans())}


def nontrivial(case):
    return True


def classify(case):
    return ["thr:" + ("default" if case["thresholds"] == "default" else "len%d" % len(case["thresholds"])),
            "ploidy:%d" % case["ploidy"], "baf" if case["with_baf"] else "nobaf", _ilabel(case)]


def _ilabel(case):
    from vk import gen

    return gen.index_label(gen.spec_for(case))


def known(case, v):
    return None


def ref_copies(cls, ploidy, male_ref):
    if cls == "Y" or (cls == "X" and male_ref):
        return ploidy // 2
    return ploidy


def probes(thr, r, extra):
    vals = []
    for t in thr:
        vals += [t, math.nextafter(t, -math.inf), math.nextafter(t, math.inf)]
    if r > 0:
        for m in range(1, 14):
            v = math.log2(m / r)
            vals += [v, math.nextafter(v, -math.inf), math.nextafter(v, math.inf)]
    vals += list(extra)
    vals.append(float("nan"))
    return vals


def model_cn(v, thr, r, ploidy):
    if math.isnan(v):
        return r
    k = sum(1 for t in thr if t < v)
    if k < len(thr):
        return k if r == ploidy else int(k * r / ploidy)
    return int(math.ceil(r * 2.0 ** v))


def check_case(case):
    import pandas as pd
    from cnvlib import call
    from cnvlib.cnary import CopyNumArray

    out = []
    thr = DEFAULT if case["thresholds"] == "default" else list(case["thresholds"])
    ploidy, male_ref = case["ploidy"], case["male_ref"]
    pre = "chr" if case["chr"] else ""

    def bad(clause, detail):
        out.append({"clause": clause, "detail": f"{detail}; thresholds={thr} ploidy={ploidy} male_ref={male_ref} chr={case['chr']}"})

    recs = []
    meta = []
    bi = 0
    for cls in CLASSES:
        r = ref_copies(cls, ploidy, male_ref)
        for j, v in enumerate(probes(thr, r, case["extra"])):
            baf = case["bafs"][bi % len(case["bafs"])]
            bi += 1
            recs.append((pre + cls, 1000 * j, 1000 * j + 500, "G", v, float("nan") if baf is None else baf))
            meta.append((cls, r, v, baf))
    from vk import gen

    # the calls are a per-row function: the rows may arrive in any order (seeded change C02j looked the reference copies
    # up once per chromosome block, assuming each chromosome's rows are contiguous)
    # one table in six has no chromosome-X row (the Y label must not hinge on an X row being present)
    if gen.pick(case, "noX", 6) == 0:
        keep = [i for i, r in enumerate(recs) if r[0].replace("chr", "") != "X"]
        recs, meta = [recs[i] for i in keep], [meta[i] for i in keep]
    order = gen.row_order(case, [r[0] for r in recs])
    recs, meta = [recs[i] for i in order], [meta[i] for i in order]
    cols = ["chromosome", "start", "end", "gene", "log2", "baf"]
    df = pd.DataFrame.from_records(recs, columns=cols)
    if not case["with_baf"]:
        df = df.drop(columns=["baf"])
    from vk import gen

    # one table in eight carries repeated row labels (per-chromosome pieces concatenated without renumbering), which
    # do_call accepts and renumbers itself
    gen.relabel(df, "perchrom" if gen.pick(case, "dup", 8) == 0 and "row_labels" not in case else gen.spec_for(case))
    cnarr = CopyNumArray(df, {"sample_id": "s"})
    before = cnarr.data.copy()
    kw = {} if case["thresholds"] == "default" else {"thresholds": tuple(thr)}
    res = call.do_call(cnarr, None, "threshold", ploidy, None, male_ref, False, None, None, **kw)
    if len(res) != len(cnarr) or list(res["start"]) != list(cnarr["start"]) or list(res["chromosome"]) != list(cnarr["chromosome"]):
        bad("rows-unchanged", f"{len(cnarr)} rows in, {len(res)} out or order changed")
        return out
    cn = res["cn"].values
    for i, (cls, r, v, baf) in enumerate(meta):
        want = model_cn(v, thr, r, ploidy)
        if cn[i] != want:
            bad("step-function", f"chromosome {pre + cls} (r={r}) log2={v!r}: cn={cn[i]!r}, definition gives {want}")
            break
    # corollaries of the default thresholds
    if case["thresholds"] == "default":
        if ploidy >= 2:
            for cls in CLASSES:
                rows = sorted((v, cn[i]) for i, (c, r, v, b) in enumerate(meta) if c == cls and not math.isnan(v))
                for (v1, c1), (v2, c2) in zip(rows[:-1], rows[1:]):
                    if c2 < c1:
                        bad("monotone", f"chromosome {pre + cls}: cn {c1} at log2 {v1!r} but {c2} at {v2!r}")
                        break
        if ploidy == 2:
            z = CopyNumArray(pd.DataFrame.from_records([(pre + "1", 0, 10, "G", 0.0)], columns=cols[:5]))
            c0 = call.do_call(z, None, "threshold", 2, None, male_ref, False)["cn"].iat[0]
            if c0 != 2:
                bad("neutral-is-2", f"cn at log2 0 on a diploid autosome = {c0}")
    # allelic split
    if case["with_baf"]:
        cn1 = res["cn1"].values.astype(float)
        cn2 = res["cn2"].values.astype(float)
        for i, (cls, r, v, baf) in enumerate(meta):
            missing = baf is None
            if missing and cn[i] > 0:
                if not (math.isnan(cn1[i]) and math.isnan(cn2[i])):
                    bad("allelic-missing", f"no BAF and cn={cn[i]}: cn1={cn1[i]!r} cn2={cn2[i]!r} should both be missing")
                    break
            else:
                if math.isnan(cn1[i]) or math.isnan(cn2[i]):
                    bad("allelic-missing", f"baf={baf!r} cn={cn[i]}: cn1={cn1[i]!r} cn2={cn2[i]!r} should not be missing")
                    break
                if cn1[i] + cn2[i] != cn[i] or not (0 <= cn1[i] <= cn[i]) or not (0 <= cn2[i] <= cn[i]):
                    bad("allelic-sum", f"baf={baf!r}: cn={cn[i]} cn1={cn1[i]!r} cn2={cn2[i]!r}")
                    break
    elif "cn1" in res or "cn2" in res:
        bad("allelic-sum", "cn1/cn2 reported without any BAF")
    if not cnarr.data.equals(before):
        bad("input-modified", "do_call changed its input array")
    # ---- command-line tier (a quarter of the cases): `cnvkit.py call` on the written table = do_call on the same file
    if gen.pick(case, "cli", 4) == 0 and not out:
        import shutil
        import tempfile

        from vk import cli

        cli.use_case(case)

        d = tempfile.mkdtemp(prefix="vk02.")
        try:
            k = gen.pick(case, "cli-center", 6)
            diff = cli.call_diff(cnarr, d, "threshold", ploidy, None, male_ref, None, None, None,
                                 None if case["thresholds"] == "default" else thr,
                                 center=[None, None, None, "median", "mean", None][k], center_at=0.25 if k == 5 else None,
                                 drop_low=k == 4)
            if diff:
                bad("cli:call", diff)
        finally:
            shutil.rmtree(d, ignore_errors=True)
    return out
