#!/bin/bash
# MANIFEST.setup_cmd: make sure hypothesis is importable beside the repository's packages (offline).
set -e
PY="${VERIF_PYTHON:-/venv/bin/python}"
if ! "$PY" -c "import hypothesis" 2>/dev/null; then
  /venv/bin/pip install --no-index --find-links /opt/veriftools/wheels hypothesis
fi
"$PY" -c "import hypothesis, pandas, numpy, scipy, pysam; print('setup ok: hypothesis', hypothesis.__version__)"
mkdir -p evidence replays
