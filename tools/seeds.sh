#!/bin/bash
# tools/seeds.sh PID [seed ...] : run the quick check at several seeds in fresh processes (quietness on the unchanged tree)
pid="$1"; shift
seeds="${@:-2 3 5 8 13}"
cd "$(dirname "$0")/.."
rc=0
for s in $seeds; do
  VERIF_EVIDENCE_DIR=/tmp/seedv/ev_seeds_$pid VERIF_SEED=$s ./check "$pid" --tier quick 2>&1 | tail -3 | grep -E "VIOLATION|HARNESS|held|VIOLATED" || rc=1
done

exit $rc
