"""Independent reference models shared by the property modules (DESIGN.md section 4).

Everything here is written from the published / documented definition, not
from the cnvkit source, and deliberately naive.
"""
import math

import numpy as np


# ------------------------------------------------------------------ tolerance
def close(a, b, rel=1e-9, abs_=1e-9):
    if a is None or b is None:
        return a is b
    if isinstance(a, float) and isinstance(b, float) and math.isnan(a) and math.isnan(b):
        return True
    try:
        if math.isnan(a) and math.isnan(b):
            return True
    except TypeError:
        pass
    if a == b:
        return True
    return abs(a - b) <= abs_ + rel * max(abs(a), abs(b))


def allclose(a, b, rel=1e-9, abs_=1e-9):
    a = np.asarray(a, dtype=float)
    b = np.asarray(b, dtype=float)
    if a.shape != b.shape:
        return False
    na, nb = np.isnan(a), np.isnan(b)
    if (na != nb).any():
        return False
    ok = ~na
    with np.errstate(invalid="ignore"):
        same = a[ok] == b[ok]
        d = np.abs(a[ok] - b[ok]) <= abs_ + rel * np.maximum(np.abs(a[ok]), np.abs(b[ok]))
    return bool(np.all(same | d))


# ------------------------------------------------------------------ plain statistics
def median(xs):
    s = sorted(xs)
    n = len(s)
    if n == 0:
        return float("nan")
    if n % 2:
        return s[n // 2]
    return 0.5 * (s[n // 2 - 1] + s[n // 2])


def percentile(xs, q):
    """Linear-interpolation percentile (the numpy default), q in [0, 100]."""
    s = sorted(xs)
    n = len(s)
    pos = (n - 1) * q / 100.0
    lo = int(math.floor(pos))
    hi = min(lo + 1, n - 1)
    frac = pos - lo
    return s[lo] + (s[hi] - s[lo]) * frac


def mad(xs, scale=True):
    m = median(xs)
    v = median([abs(x - m) for x in xs])
    return v * 1.4826 if scale else v


def iqr(xs):
    return percentile(xs, 75) - percentile(xs, 25)


def gapper(xs):
    s = sorted(xs)
    n = len(s)
    tot = 0.0
    for i in range(1, n):
        tot += (s[i] - s[i - 1]) * i * (n - i)
    return tot * math.sqrt(math.pi) / (n * (n - 1))


def qn(xs):
    n = len(xs)
    diffs = [abs(xs[i] - xs[j]) for i in range(n) for j in range(i + 1, n)]
    q = percentile(diffs, 25)
    if n <= 10:
        c = 1.392
    elif n < 400:
        c = 1.0 + 4.0 / n
    else:
        c = 1.0
    return q / c


def biweight_location_candidates(xs, initial=None, c=6.0, eps=1e-3, max_iter=5):
    """Tukey's biweight location as cnvkit documents it: start from the median,
    at most 5 re-weighting steps, stop when a step moves by <= eps.

    Returns the list of acceptable answers: normally one; when a stopping test
    falls within rounding distance of its threshold both continuations are
    acceptable.
    """
    a = np.asarray(xs, dtype=float)
    cur = float(np.median(a)) if initial is None else float(initial)
    out = []
    res = cur
    for _ in range(max_iter):
        d = a - cur
        m = float(np.median(np.abs(d)))
        u = d / max(c * m, eps)
        w = (1.0 - u * u) ** 2
        keep = w < 1.0
        sw = float(w[keep].sum())
        if sw == 0:
            res = cur
        else:
            res = cur + float((d[keep] * w[keep]).sum()) / sw
        step = abs(res - cur)
        if abs(step - eps) <= 1e-9 * max(1.0, abs(eps)):
            out.append(res)  # borderline: stopping here is acceptable too
        elif step <= eps:
            break
        cur = res
    out.append(res)
    return out


def biweight_midvariance_candidates(xs, initial=None, c=9.0, eps=1e-3):
    a = np.asarray(xs, dtype=float)
    if initial is None:
        locs = biweight_location_candidates(a)
    else:
        locs = [float(initial)]
    out = []
    for loc in locs:
        d = a - loc
        m = float(np.median(np.abs(d)))
        u = d / max(c * m, eps)
        keep = np.abs(u) < 1.0
        s = float(u[keep].sum())
        fallback = m * 1.4826
        n = int(keep.sum())
        u2 = (u * u)[keep]
        dd = d[keep]
        with np.errstate(all="ignore"):
            num = n * float(((dd * dd) * (1 - u2) ** 4).sum())
            den = float(((1 - u2) * (1 - 5 * u2)).sum()) ** 2
            full = math.sqrt(num / den) if den != 0 else float("inf")
        scale = float(np.abs(u[keep]).sum()) + 1e-300
        if s == 0:
            out.append(fallback)
            if n and scale > 1e-290:
                pass
        elif abs(s) <= 1e-9 * scale:
            out.extend([fallback, full])  # symmetric to rounding: either branch
        else:
            out.append(full)
    return out


def weighted_median_interval(xs, ws):
    """All m with weight(x<m) <= W/2 and weight(x>m) <= W/2 form [lo, hi]."""
    order = sorted(range(len(xs)), key=lambda i: xs[i])
    W = float(sum(ws))
    half = W / 2.0
    tol = 1e-12 * max(W, 1e-300)
    # lo: smallest x with cumulative weight (<= x) >= half
    cum = 0.0
    lo = hi = None
    for i in order:
        cum += ws[i]
        if lo is None and cum >= half - tol:
            lo = xs[i]
        if hi is None and cum > half + tol:
            hi = xs[i]
            break
    if hi is None:
        hi = xs[order[-1]]
    if lo is None:
        lo = hi
    return lo, hi


def weighted_std(xs, ws):
    W = sum(ws)
    mu = sum(x * w for x, w in zip(xs, ws)) / W
    var = sum(w * (x - mu) ** 2 for x, w in zip(xs, ws)) / W
    return math.sqrt(var)


def kde_density_at_points(xs):
    """Gaussian KDE (Scott's rule bandwidth) evaluated at every data point."""
    a = np.asarray(xs, dtype=float)
    n = len(a)
    sd = float(np.std(a, ddof=1))
    h = sd * n ** (-1.0 / 5.0)
    diff = (a[:, None] - a[None, :]) / h
    dens = np.exp(-0.5 * diff * diff).sum(axis=1) / (n * h * math.sqrt(2 * math.pi))
    return dens


def rolling_median_model(x, wing):
    """Mirror-pad by `wing`, centred window 2*wing+1, plain median."""
    x = list(map(float, x))
    n = len(x)
    pad_l = [x[i] for i in range(wing - 1, -1, -1)]
    pad_r = [x[n - 1 - i] for i in range(wing)]
    sig = pad_l + x + pad_r
    out = []
    for i in range(n):
        c = i + wing
        out.append(median(sig[c - wing:c + wing + 1]))
    return out


def bh_adjust(ps):
    """Benjamini-Hochberg adjusted p-values by the O(n^2) definition:
    adj_i = min(1, min over j with p_j >= p_i of p_j * n / rank_j)."""
    n = len(ps)
    order = sorted(range(n), key=lambda i: ps[i])
    rank = [0] * n
    for r, i in enumerate(order, 1):
        rank[i] = r
    # ties: the step-up procedure gives tied p-values the largest rank among them
    out = []
    for i in range(n):
        best = 1.0
        for j in range(n):
            if ps[j] >= ps[i]:
                best = min(best, ps[j] * n / rank[j])
        out.append(best)
    return out


# ------------------------------------------------------------------ base-pair masks
def compress(*tables):
    """Coordinate compression: sorted distinct endpoints over all tables (lists of (s,e))."""
    pts = sorted({p for t in tables for s, e in t for p in (s, e)})
    return pts


def covered(rows):
    """Union of half-open intervals as a sorted list of disjoint maximal runs (abutting joined)."""
    rs = sorted((s, e) for s, e in rows if e > s)
    out = []
    for s, e in rs:
        if out and s <= out[-1][1]:
            if e > out[-1][1]:
                out[-1][1] = e
        else:
            out.append([s, e])
    return [(s, e) for s, e in out]


def run_minus(a_runs, b_runs):
    """a minus b for sorted disjoint run lists."""
    out = []
    for s, e in a_runs:
        cur = s
        for bs, be in b_runs:
            if be <= cur:
                continue
            if bs >= e:
                break
            if bs > cur:
                out.append((cur, min(bs, e)))
            cur = max(cur, be)
            if cur >= e:
                break
        if cur < e:
            out.append((cur, e))
    return out


def run_and(a_runs, b_runs):
    out = []
    for s, e in a_runs:
        for bs, be in b_runs:
            lo, hi = max(s, bs), min(e, be)
            if lo < hi:
                out.append((lo, hi))
    return sorted(out)


def total(runs):
    return sum(e - s for s, e in runs)


# ------------------------------------------------------------------ chromosome order
def natural_key(chrom):
    """Order stated in C08: integers numerically, then X, Y, then M/MT and other names.
    Returns a key only meaningful between names whose relative order the
    property states (plain numbers, X, Y, M/MT with or without 'chr')."""
    c = chrom[3:] if chrom.lower().startswith("chr") else chrom
    if c.isdigit():
        return (0, int(c), "")
    if c == "X":
        return (1, 0, "")
    if c == "Y":
        return (2, 0, "")
    if c in ("M", "MT"):
        return (3, 0, "")
    return (4, 0, c)


def midvariance_branch_tied(xs, c=9.0, eps=1e-3):
    """True when cnvkit's biweight midvariance sits on its `sum(w[inliers]) == 0.0` switch: the inlier weights cancel
    exactly or to rounding, so a perturbation of the data at the 1e-16 level selects the other formula."""
    a = np.asarray(xs, dtype=float)
    if len(a) < 2:
        return False
    for loc in biweight_location_candidates(a):
        d = a - loc
        m = float(np.median(np.abs(d)))
        u = d / max(c * m, eps)
        keep = np.abs(u) < 1.0
        scale = float(np.abs(u[keep]).sum())
        if scale > 0 and abs(float(u[keep].sum())) <= 1e-9 * scale:
            return True
    return False
